/-
C20 — funds escrowed for pending orders are safe and only the owner controls them. Property theorems only.
-/
import ElysModel.Lemmas.Ids
import ElysModel.Ledger.Orders
namespace Elys.Orders.C20
open FMap

local macro "keysplit" : tactic => `(tactic| (split <;> first | (rename_i hk; subst hk) | skip))

/-- the code as it stands: executions are atomic -/
def opRepaired : Op → Prop
  | .execute _ _ _ _ _ _ atomic => atomic = true
  | _ => True

/-- while an order is pending its escrow holds at least the order's amount, and nothing has been lost -/
def Inv (s : St) : Prop := (∀ id, s.pending.get id = 1 → s.amount.get id ≤ s.escrow.get id) ∧ s.lost = 0 ∧
  (∀ id, s.pending.get id = 0 ∨ s.pending.get id = 1)

theorem step_inv {s s' : St} {op : Op} (hi : Inv s) (hr : opRepaired op) (h : step s op = .ok s') : Inv s' := by
  obtain ⟨h1, h2, h3⟩ := hi
  cases op with
  | create id who amt =>
    simp only [step] at h; split at h; · simp at h
    split at h; · simp at h
    rename_i hx he
    simp only [Except.ok.injEq] at h; subst h
    refine ⟨fun j hj => ?_, h2, fun j => ?_⟩
    · by_cases e : id = j
      · subst e; simp only [get_set, get_add, if_true]; omega
      · simp only [get_set, get_add, e, if_false] at hj ⊢; exact h1 j hj
    · simp only [get_set]; keysplit
      · right; rfl
      · exact h3 j
  | update id signer =>
    simp only [step] at h; split at h; · simp at h
    split at h; · simp at h
    simp only [Except.ok.injEq] at h; subst h; exact ⟨h1, h2, h3⟩
  | cancel id signer =>
    simp only [step] at h; split at h; · simp at h
    split at h; · simp at h
    simp only [Except.ok.injEq] at h; subst h
    refine ⟨fun j hj => ?_, h2, fun j => ?_⟩
    · by_cases e : id = j
      · subst e; simp [get_set] at hj
      · simp only [get_set, e, if_false] at hj ⊢; exact h1 j hj
    · simp only [get_set]; keysplit
      · left; rfl
      · exact h3 j
  | donate id x =>
    simp only [step] at h; split at h; · simp at h
    simp only [Except.ok.injEq] at h; subst h
    refine ⟨fun j hj => ?_, h2, h3⟩
    have := h1 j hj; simp only [get_add]; keysplit <;> omega
  | execute id kind market rate innerOk spent atomic =>
    simp only [opRepaired] at hr; subst hr
    simp only [step] at h; split at h; · simp at h
    split at h
    · simp only [Except.ok.injEq] at h; subst h; exact ⟨h1, h2, h3⟩
    · split at h; · simp at h
      split at h
      · simp only [Except.ok.injEq] at h; subst h
        refine ⟨fun j hj => ?_, h2, fun j => ?_⟩
        · by_cases e : id = j
          · subst e; simp [get_set] at hj
          · simp only [get_set, get_add, e, if_false] at hj ⊢; exact h1 j hj
        · simp only [get_set]; keysplit
          · left; rfl
          · exact h3 j
      · simp only [if_true, Except.ok.injEq] at h; subst h; exact ⟨h1, h2, h3⟩

theorem run_inv (s : St) (ops : List Op) (hi : Inv s) (hr : ∀ op ∈ ops, opRepaired op) : Inv (run s ops) := by
  induction ops generalizing s with
  | nil => exact hi
  | cons op ops ih =>
    apply ih _ _ (fun o h => hr o (List.mem_cons_of_mem _ h))
    unfold stepTx
    cases h : step s op with
    | error e => exact hi
    | ok s' => exact step_inv hi (hr op (List.mem_cons_self ..)) h

/-- owner's wallet + all escrows is conserved through create, update, cancel and skipped or failed executions
(a successful execution hands the funds to the owner's own trade). -/
theorem conservation {s s' : St} {op : Op} (hr : opRepaired op) (h : step s op = .ok s')
    (hne : ∀ id k m r sp a, op ≠ .execute id k m r true sp a) (hd : ∀ id x, op ≠ .donate id x) :
    s'.wallet.total + s'.escrow.total = s.wallet.total + s.escrow.total := by
  cases op with
  | create id who amt =>
    simp only [step] at h; split at h; · simp at h
    split at h; · simp at h
    simp only [Except.ok.injEq] at h; subst h
    simp only [total_add]; omega
  | update id signer =>
    simp only [step] at h; split at h; · simp at h
    split at h; · simp at h
    simp only [Except.ok.injEq] at h; subst h; rfl
  | cancel id signer =>
    simp only [step] at h; split at h; · simp at h
    split at h; · simp at h
    simp only [Except.ok.injEq] at h; subst h
    simp only [total_add, total_set]; omega
  | donate id x => exact absurd rfl (hd id x)
  | execute id kind market rate innerOk spent atomic =>
    simp only [opRepaired] at hr; subst hr
    cases innerOk with
    | true => exact absurd rfl (hne id kind market rate spent true)
    | false =>
      simp only [step] at h; split at h; · simp at h
      split at h
      · simp only [Except.ok.injEq] at h; subst h; rfl
      · split at h; · simp at h
        simp at h; subst h; rfl

/-- only the owner can update or cancel: from anyone else the op fails (and `stepTx` leaves the state as it was) -/
theorem owner_only (s : St) (id : Nat) (signer : String) (hs : signer ≠ ownerOf s id) :
    stepTx s (.update id signer) = s ∧ stepTx s (.cancel id signer) = s := by
  constructor <;> simp only [stepTx, step] <;> split <;> simp_all <;> (split at * <;> simp_all)

/-- an execution request leaves an order untouched unless the market price satisfies its trigger -/
theorem trigger {s s' : St} {id : Nat} {k : Kind} {m r sp : Int} {ok a : Bool}
    (h : step s (.execute id k m r ok sp a) = .ok s') (hne : s' ≠ s) : triggered k m r = true := by
  simp only [step] at h; split at h; · simp at h
  split at h
  · simp only [Except.ok.injEq] at h; exact absurd h.symm hne
  · rename_i ht; simpa using ht

/-- cancelling returns the full escrow (including anything donated) to the owner -/
theorem cancel_returns_all {s s' : St} {id : Nat} (h : step s (.cancel id (ownerOf s id)) = .ok s') :
    s'.escrow.get id = 0 ∧ s'.wallet.get (ownerOf s id) = s.wallet.get (ownerOf s id) + s.escrow.get id := by
  simp only [step] at h; split at h; · simp at h
  simp only [ne_eq, not_true_eq_false, if_false, Except.ok.injEq] at h; subst h
  simp [get_set, get_add]

/-- WITNESS (before b33fde3): a perpetual limit-open order of 200 whose Open fails AFTER Borrow took the collateral:
the error is only logged, the escrow is empty, the collateral has left the owner's wallet, the order is still pending. -/
theorem perp_open_partial_effects_witness :
    let s := run {} [.create 1 "alice" 200, .execute 1 .perpLong 5 6 false 200 false]
    s.pending.get 1 = 1 ∧ s.escrow.get 1 = 0 ∧ s.lost = 200 ∧ escrowHoldsB s 1 = false := by decide

/-- the same history on the repaired handler changes nothing -/
theorem perp_open_failed_atomic :
    let s := run {} [.create 1 "alice" 200, .execute 1 .perpLong 5 6 false 200 true]
    s.pending.get 1 = 1 ∧ s.escrow.get 1 = 200 ∧ s.lost = 0 := by decide

/-- non-vacuity -/
example : Inv (run {} [.create 1 "alice" 200, .create 2 "bob" 50, .donate 2 5, .update 1 "alice", .cancel 2 "mallory",
    .execute 1 .stopLoss 7 6 true 0 true, .execute 1 .stopLoss 5 6 true 0 true, .cancel 2 "bob"]) :=
  run_inv _ _ ⟨fun _ h => by simp [FMap.get] at h, rfl, fun _ => by simp [FMap.get]⟩
    (by intro op h; simp at h; rcases h with h | h | h | h | h | h | h | h <;> subst h <;> simp [opRepaired])

/-! ### ids of pending orders (the store key and the escrow account are derived from the id alone) -/

theorem ids_run_inv (s : Ids.St) (ops : List Ids.Op) (hi : Ids.InvNext s) (hr : ∀ op ∈ ops, Ids.repairedNext op) :
    Ids.InvNext (Ids.runNext s ops) := by
  induction ops generalizing s with
  | nil => exact hi
  | cons op ops ih =>
    exact ih _ (Ids.stepNext_inv hi (hr op (List.mem_cons_self ..))) (fun o ho => hr o (List.mem_cons_of_mem _ ho))

/-- over every history of order creations, removals (cancel, execute) and export / import restarts that carry the exported
counter (the code's rule), every pending order's id is below the counter and no id is pending twice: a new order never takes
the record and the escrow account of a pending one -/
theorem order_ids_never_reused (ops : List Ids.Op) (hr : ∀ op ∈ ops, Ids.repairedNext op) : Ids.InvNext (Ids.runNext {} ops) :=
  ids_run_inv {} ops ⟨fun _ h => by simp at h, List.nodup_nil⟩ hr

/-- WITNESS (the shape of seeded change C20-3): orders 1 2 3 created, order 1 cancelled, restart with the counter derived from the
number of pending orders (2): the next order takes id 2, which is still pending; with the exported counter kept it takes 4. -/
theorem order_import_by_length_witness :
    (Ids.runNext {} [.create, .create, .create, .remove 1, .reimport .byLength, .create]).live = [2, 3, 2] ∧
    (Ids.runNext {} [.create, .create, .create, .remove 1, .reimport .kept, .create]).live = [4, 3, 2] := by
  constructor <;> decide

end Elys.Orders.C20
