/-
C01 — AMM pool reserves always equal the tokens the pool really holds; denom liquidity = Σ reserves.
Property theorems only.
-/
import ElysModel.Ledger.Amm
namespace Elys.AmmBook.C01
open FMap

/-- real balance = book + third-party donations (donations ≥ 0), and chain-wide liquidity = Σ_p book. -/
def Inv (s : St) : Prop :=
  (∀ k, s.held.get k = s.book.get k + s.donated.get k) ∧ (∀ d, s.liq.get d = sumBook s d) ∧ (∀ k, 0 ≤ s.donated.get k)

/-- the repaired code: every exit goes through the per-asset subtraction (`fixed = true`). -/
def opRepaired : Op → Prop
  | .exitOut f _ _ _ => f = true
  | .failedConversion f _ _ _ _ _ => f = true
  | _ => True

theorem sumBook_add (b : FMap PD) (p : Nat) (d e : String) (x : Int) :
    sumIf (fun k => k.2 == e) (b.add (p, d) x) = sumIf (fun k => k.2 == e) b + (if d = e then x else 0) := by
  rw [sumIf_add]; simp

/-- one primitive op preserves the invariant (repaired exit), for all amounts. -/
theorem step_inv {s s' : St} {op : Op} (hi : Inv s) (hr : opRepaired op) (h : step s op = .ok s') : Inv s' := by
  obtain ⟨h1, h2, h3⟩ := hi
  cases op with
  | tokenIn p d x =>
    simp only [step, tokenIn] at h
    split at h; · simp at h
    simp only [Except.ok.injEq] at h; subst h
    refine ⟨fun k => ?_, fun e => ?_, h3⟩
    · have := h1 k; simp only [get_add]; split
      · rename_i hk; subst hk; omega
      · omega
    · have := h2 e; simp only [sumBook, sumBook_add, get_add] at *; split <;> simp_all <;> omega
  | tokenOut p d x =>
    simp only [step, tokenOut] at h
    split at h; · simp at h
    split at h; · simp at h
    split at h; · simp at h
    split at h; · simp at h
    simp only [Except.ok.injEq] at h; subst h
    refine ⟨fun k => ?_, fun e => ?_, h3⟩
    · have := h1 k; simp only [get_add]; split
      · rename_i hk; subst hk; omega
      · omega
    · have := h2 e; simp only [sumBook, sumBook_add, get_add] at *; split <;> simp_all <;> omega
  | exitOut f p d x =>
    simp only [opRepaired] at hr; subst hr
    simp only [step, exitOut] at h
    split at h; · simp at h
    split at h; · simp at h
    split at h; · simp at h
    rename_i hz
    simp only [Bool.true_and, decide_eq_true_eq] at hz
    have hne : ¬ (s.book.get (p, d) - x = 0) := by omega
    simp only [hne, if_false] at h
    split at h; · simp at h
    split at h; · simp at h
    simp only [Except.ok.injEq] at h; subst h
    refine ⟨fun k => ?_, fun e => ?_, h3⟩
    · have := h1 k; simp only [get_add]; split
      · rename_i hk; subst hk; omega
      · omega
    · have := h2 e; simp only [sumBook, sumBook_add, get_add] at *; split <;> simp_all <;> omega
  | donate p d x =>
    simp only [step, donate] at h
    split at h; · simp at h
    simp only [Except.ok.injEq] at h; subst h
    refine ⟨fun k => ?_, h2, fun k => ?_⟩
    · have := h1 k; simp only [get_add]; split
      · rename_i hk; subst hk; omega
      · omega
    · have := h3 k; simp only [get_add]; split
      · rename_i hk; subst hk; omega
      · omega

  | failedConversion f p dIn x dOut y =>
    simp only [opRepaired] at hr; subst hr
    simp only [step, failedConversion, if_true, Except.ok.injEq] at h; subst h
    exact ⟨h1, h2, h3⟩

/-- an atomic macro-op (a message handler: any sequence of primitives, all-or-nothing) preserves it. -/
theorem atomic_inv {s s' : St} (ops : List Op) (hi : Inv s) (hr : ∀ op ∈ ops, opRepaired op)
    (h : runAtomic s ops = .ok s') : Inv s' := by
  induction ops generalizing s with
  | nil => simp [runAtomic, pure, Except.pure] at h; subst h; exact hi
  | cons op ops ih =>
    simp only [runAtomic, List.foldlM_cons, bind, Except.bind] at h
    cases h1 : step s op with
    | error e => simp [h1] at h
    | ok s1 =>
      simp only [h1] at h
      exact ih (step_inv hi (hr op (List.mem_cons_self ..)) h1) (fun o ho => hr o (List.mem_cons_of_mem _ ho)) h

/-- every history of macro-ops (failed ones roll back), over all amounts and interleavings. -/
theorem run_inv (s : St) (macros : List (List Op)) (hi : Inv s) (hr : ∀ m ∈ macros, ∀ op ∈ m, opRepaired op) :
    Inv (run s macros) := by
  induction macros generalizing s with
  | nil => exact hi
  | cons m ms ih =>
    apply ih _ _ (fun m' h => hr m' (List.mem_cons_of_mem _ h))
    unfold stepTx
    cases h : runAtomic s m with
    | error e => exact hi
    | ok s' => exact atomic_inv m hi (hr m (List.mem_cons_self ..)) h

/-- the property's wording: the real balance is never below the book value, and exceeds it only by donations. -/
theorem held_ge_book (s : St) (hi : Inv s) (k : PD) : s.book.get k ≤ s.held.get k := by
  have := hi.1 k; have := hi.2.2 k; omega

/-- the pre-repair exit keeps the invariant exactly when the exit leaves a positive remainder… -/
theorem exit_asCoded_partial {s s' : St} {p : Nat} {d : String} {x : Int} (hi : Inv s)
    (hlt : x < s.book.get (p, d)) (h : step s (.exitOut false p d x) = .ok s') : Inv s' := by
  have h' : step s (.exitOut true p d x) = .ok s' := by
    simp only [step, exitOut] at h ⊢
    have : ¬ (s.book.get (p, d) - x ≤ 0) := by omega
    simp only [Bool.false_and, Bool.true_and, decide_eq_true_eq, this] at h ⊢
    exact h
  exact step_inv hi (by simp [opRepaired]) h'

/-- …WITNESS (pre-repair): an exit that pays out exactly the book balance leaves the book untouched while
the bank balance goes to zero (oracle pool whose accounted balance exceeds its real one). -/
theorem exit_zero_witness :
    let s0 : St := { held := [((3, "uusdc"), 1050)], book := [((3, "uusdc"), 1050)], liq := [("uusdc", 1050)] }
    ∃ s1, step s0 (.exitOut false 3 "uusdc" 1050) = .ok s1 ∧ s1.held.get (3, "uusdc") = 0 ∧ s1.book.get (3, "uusdc") = 1050 :=
  ⟨_, rfl, by decide, by decide⟩

/-- WITNESS (before 78eb247): a swap whose fee conversion failed after applying itself to the shared in-memory pool — the saved book
holds 6,033,848,107 uatom that no transfer backs (history seed 1104, block 122: a sale of half a reserve into an oracle pool) -/
theorem failed_conversion_witness :
    let s0 : St := run {} [[.tokenIn 3 "uatom" 1000000, .tokenIn 3 "uusdc" 5000000]]
    (∀ k ∈ [((3 : Nat), "uatom"), (3, "uusdc")], heldEqBookB s0 k = true) ∧
    heldEqBookB (stepTx s0 [.failedConversion false 3 "uatom" 60 "uusdc" 300]) (3, "uatom") = false ∧
    stepTx s0 [.failedConversion true 3 "uatom" 60 "uusdc" 300] = s0 := by
  refine ⟨by decide, by decide, by rfl⟩

/-- the repaired exit refuses that input. -/
theorem exit_zero_refused :
    let s0 : St := { held := [((3, "uusdc"), 1050)], book := [((3, "uusdc"), 1050)], liq := [("uusdc", 1050)] }
    (step s0 (.exitOut true 3 "uusdc" 1050)).toOption = none := by decide

/-- non-vacuity -/
example : Inv (run {} [[.tokenIn 1 "uusdc" 500, .tokenIn 1 "uatom" 100], [.donate 1 "uatom" 7],
    [.tokenIn 1 "uatom" 10, .tokenOut 1 "uusdc" 45, .tokenOut 1 "uatom" 1], [.exitOut true 1 "uusdc" 5]]) := by
  apply run_inv
  · exact ⟨fun k => by simp [FMap.get], fun d => by simp [sumBook, FMap.sumIf, FMap.get], fun k => by simp [FMap.get]⟩
  · intro m hm op ho; simp at hm; rcases hm with h | h | h | h <;> subst h <;> simp at ho <;> (try rcases ho with h | h | h) <;> (try subst h) <;> simp_all [opRepaired]

end Elys.AmmBook.C01
