/-
C16 — source tie (see Props/C03Src.lean for what that is): who may write a price, x/oracle/keeper/msg_server_price.go `FeedPrice`,
translated whole (its only effect, `SetPrice`, is a skipped call listed in the table): the message is accepted only from an
address that has a price-feeder record which is active.
Property theorems only.
-/
import ElysModel.Gen.Arith.feedPriceGuards
import ElysModel.Gen.Arith.Table
namespace Elys.Oracle.C16Src
open Elys Elys.Amm

/-- `FeedPrice` returns without an error only for a registered, active feeder. -/
theorem gen_only_active_feeders_write (found active b : Bool) (h : Gen.Arith.feedPriceGuards found active = .ok b) :
    found = true ∧ active = true := by
  unfold Gen.Arith.feedPriceGuards at h
  cases found <;> cases active <;> simp at h ⊢

/-- and a registered active feeder is never refused. -/
theorem gen_active_feeder_accepted : ∃ b, Gen.Arith.feedPriceGuards true true = .ok b := ⟨_, rfl⟩

/-- what is read: the feeder record of the message's OWN provider address (not of another address), and its active flag; the one
effect skipped is the write of the price. -/
theorem gen_free_feedPrice :
    Gen.Arith.freeOf "feedPriceGuards" = ["#0.Keeper.GetPriceFeeder(sdk.UnwrapSDKContext(#1), sdk.MustAccAddressFromBech32(#2.Provider))#1",
      "#0.Keeper.GetPriceFeeder(sdk.UnwrapSDKContext(#1), sdk.MustAccAddressFromBech32(#2.Provider)).IsActive"] ∧
    Gen.Arith.skippedOf "feedPriceGuards" = ["#0.SetPrice"] := by decide

end Elys.Oracle.C16Src
