/-
C10 — others can force-close a position only when allowed; new positions start healthy. Property theorems only.
-/
import ElysModel.Close.Model
namespace Elys.Close.C10

/-- a position is changed by third-party attempts only if the guard of one of the attempted paths held -/
theorem third_party_close (v : View) (rs : List (Req × Bool)) (p : Pos) (h : attempts v rs (some p) ≠ some p) :
    ∃ rc ∈ rs, allowed v rc.1 = true := by
  induction rs generalizing p with
  | nil => simp [attempts] at h
  | cons rc rs ih =>
    by_cases ha : allowed v rc.1 = true
    · exact ⟨rc, List.mem_cons_self .., ha⟩
    · have hstep : attempt v rc.1 rc.2 (some p) = some p := by simp [attempt, ha]
      have : attempts v rs (some p) ≠ some p := by
        simpa [attempts, List.foldl_cons, hstep] using h
      obtain ⟨x, hx, hax⟩ := ih p this
      exact ⟨x, List.mem_cons_of_mem _ hx, hax⟩

/-- otherwise it is left exactly as it was -/
theorem untouched_otherwise (v : View) (rs : List (Req × Bool)) (p : Pos) (h : ∀ rc ∈ rs, allowed v rc.1 = false) :
    attempts v rs (some p) = some p := by
  induction rs with
  | nil => rfl
  | cons rc rs ih =>
    have ha := h rc (List.mem_cons_self ..)
    have hstep : attempt v rc.1 rc.2 (some p) = some p := by simp [attempt, ha]
    simp only [attempts, List.foldl_cons, hstep]
    exact ih (fun x hx => h x (List.mem_cons_of_mem _ hx))

/-- the as-coded guards say what the property says: every path's guard implies the property's condition (health at or below
the safety factor, or the market at the stop-loss / take-profit price that was actually set), for every positive price. -/
theorem guard_meets_spec (v : View) (r : Req) (hpos : 0 < v.price) (h : allowed v r = true) : allowedSpec v r = true := by
  cases r with
  | liquidate => simpa [allowedSpec] using h
  | takeProfit => simpa [allowedSpec] using h
  | stopLoss =>
    simp only [allowedSpec, Bool.and_eq_true, h, and_true]
    simp only [bne_iff_ne, ne_eq, decide_eq_true_eq]
    intro hz
    cases hm : v.module with
    | lp => simp [allowed, hm, hz] at h; omega
    | perp =>
      cases hl : v.long with
      | true => simp [allowed, hm, hl, hz] at h; omega
      | false => simp [allowed, hm, hl, hz] at h

/-- WITNESS (before the repair): a perpetual short whose owner removed the stop loss (price 0): the stop-loss guard held at
every price, so anyone could force-close it through MsgClosePositions. -/
theorem short_zero_stoploss_witness :
    let v : View := { module := .perp, long := false, health := 3000000000000000000, safety := 1025000000000000000,
                      price := 5000000000000000000, stopLoss := 0, takeProfit := 2500000000000000000, liabZero := false }
    allowedBefore v .stopLoss = true ∧ allowedSpec v .stopLoss = false ∧ allowed v .stopLoss = false ∧
    allowed v .liquidate = false ∧ allowed v .takeProfit = false := by decide

/-- every accepted open leaves the position with health strictly above the safety factor -/
theorem open_healthy (health safety : Int) (h : openAccepted health safety = true) : safety < health := by
  simpa [openAccepted] using h

/-- a user close by anyone but the owner fails -/
theorem owner_only (owner signer : String) (p : Option Pos) (h : signer ≠ owner) : userClose owner signer p = .error () := by
  simp [userClose, h]

/-- however many third-party requests name a position within one block, together they take exactly what had accrued - once -/
theorem only_accrued_taken (n : Nat) (custody accrued : Int) : settleN (n + 1) (custody, accrued) = (custody - accrued, 0) := by
  induction n generalizing custody accrued with
  | zero => rfl
  | succ n ih =>
    show settleN (n + 1) (settle (custody, accrued)) = _
    rw [show settle (custody, accrued) = (custody - accrued, 0) from rfl, ih]
    simp

/-- non-vacuity: a healthy long named in all three lists stays; an unhealthy one goes -/
example :
    let v : View := { module := .perp, long := true, health := 2000000000000000000, safety := 1025000000000000000,
                      price := 5000000000000000000, stopLoss := 4000000000000000000, takeProfit := 9000000000000000000, liabZero := false }
    attempts v [(.liquidate, true), (.stopLoss, true), (.takeProfit, true)] (some ⟨10, 5, 20⟩) = some ⟨10, 5, 20⟩ ∧
    attempts { v with health := 1000000000000000000 } [(.liquidate, true)] (some ⟨10, 5, 20⟩) = none := by decide

end Elys.Close.C10
