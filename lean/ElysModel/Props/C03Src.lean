/-
C03 — source tie.  `Gen/Arith/*.lean` is regenerated from /repo's Go source by `harness/cmd/go2lean` on every run of this
check; the theorems below say that the hand-written model the C03 theorems are about IS what the source says now, for ALL
arguments (not for the sampled ones of the differential harness).  A change of the arithmetic of one of these functions
breaks the theorem about it.  `Pow` (loops) stays tied by the differential harness only.
Property theorems only.
-/
import ElysModel.Lemmas.GenTie
import ElysModel.Gen.Arith.calculateTokenARate
import ElysModel.Gen.Arith.absDifferenceWithSign
import ElysModel.Gen.Arith.getWeightBreakingFee
import ElysModel.Gen.Arith.Table
import ElysModel.Gen.Arith.applyDiscount
import ElysModel.Lemmas.Stable
import ElysModel.Amm.Oracle
namespace Elys.Amm.C03Src
open Elys Elys.Amm

/-- `solveConstantFunctionInvariant` (x/amm/types) = `solveCFI`. -/
theorem gen_solveCFI (xb xa wx yb wy : Int) :
    Gen.Arith.solveConstantFunctionInvariant xb xa wx yb wy = solveCFI xb xa wx yb wy := gen_solveCFI_eq xb xa wx yb wy

/-- `CalculateTokenARate` (x/amm/types) = `tokenARate`. -/
theorem gen_tokenARate (a wa b wb : Int) : Gen.Arith.calculateTokenARate a wa b wb = tokenARate a wa b wb := rfl

/-- `AbsDifferenceWithSign` (x/amm/types/utils.go) = `absDiffSign`. -/
theorem gen_absDiffSign (a b : Int) : Gen.Arith.absDifferenceWithSign a b = absDiffSign a b := by
  unfold Gen.Arith.absDifferenceWithSign absDiffSign
  split <;> (cases h : subC a b <;> rfl) <;> skip

/-- `GetWeightBreakingFee` (x/amm/types/utils.go) = `weightBreakingFee`, the two parameters it reads being the model's. -/
theorem gen_weightBreakingFee (fi fo ti to ii io dd : Int) (pr : OParams) :
    Gen.Arith.getWeightBreakingFee fi fo ti to ii io dd pr.multiplier pr.exponent = weightBreakingFee fi fo ti to ii io dd pr := by
  unfold Gen.Arith.getWeightBreakingFee weightBreakingFee cap99
  by_cases hm : pr.multiplier = 0
  · simp [hm]; rfl
  · by_cases hd : dd > 0 <;> by_cases h1 : fo = 0 <;> by_cases h2 : fi = 0 <;> by_cases h3 : to = 0 <;> by_cases h4 : ti = 0 <;>
      by_cases h5 : io = 0 <;> by_cases h6 : ii = 0 <;> simp [*, ite_pure] <;> rfl

/-- what `GetWeightBreakingFee` reads besides its arguments: the two amm parameters, in this order. -/
theorem gen_free_weightBreakingFee :
    Gen.Arith.freeOf "getWeightBreakingFee" = ["#7.WeightBreakingFeeMultiplier", "#7.WeightBreakingFeeExponent"] := by decide

/-- a fee discount between 0 and 100 %, as the source applies it now, never raises the swap fee and never makes it negative. -/
theorem discount_lowers_fee (fee d r : Int) (hf : 0 ≤ fee) (hd : 0 ≤ d ∧ d ≤ P)
    (h : Gen.Arith.applyDiscount fee d = .ok r) : 0 ≤ r ∧ r ≤ fee := by
  unfold Gen.Arith.applyDiscount at h
  obtain ⟨t1, h1, h⟩ := bind_ok h
  obtain ⟨t2, h2, h⟩ := bind_ok h
  cases h
  have e1 := chk_ok h1
  unfold mulC at h2
  have e2 := chk_ok h2
  subst e1 e2
  unfold Dec.mul
  have hx : 0 ≤ fee * (P - d) := Int.mul_nonneg hf (by omega)
  have hy : fee * (P - d) ≤ fee * P := Int.mul_le_mul_of_nonneg_left (by omega) hf
  constructor
  · have := Stable.round2_mono (x := 0) (y := fee * (P - d)) (by omega) hx
    simpa [round2, roundNonneg] using this
  · have := Stable.round2_mono hx hy
    rwa [Stable.round2_mul_P] at this

end Elys.Amm.C03Src
