/-
C13 — every liquidity-provider reward that has been credited can actually be paid. Property theorems only.
-/
import ElysModel.Rewards.Model
namespace Elys.Rewards.C13

theorem tdiv_mul_le {x : Int} (hx : 0 ≤ x) : x.tdiv P * P ≤ x := by
  rw [Int.tdiv_eq_ediv_of_nonneg hx]; exact Int.ediv_mul_le x (by decide)

/-- Σ_u ⌊Δacc · b_u / P⌋ · P ≤ Δacc · Σ_u b_u -/
theorem totalCredit_le (dacc : Int) (hd : 0 ≤ dacc) (bs : List Int) (hb : ∀ b ∈ bs, 0 ≤ b) :
    totalCredit dacc bs * P ≤ dacc * sumBals bs := by
  induction bs with
  | nil => simp [totalCredit, sumBals]
  | cons b bs ih =>
    have h0 : 0 ≤ dacc * b := Int.mul_nonneg hd (hb b (List.mem_cons_self ..))
    have h1 := tdiv_mul_le h0
    have h2 := ih (fun x hx => hb x (List.mem_cons_of_mem _ hx))
    simp only [totalCredit, sumBals, Int.add_mul, Int.mul_add]; omega

/-- the total credited to users by one `UpdateAccPerShare(amount)` never exceeds `amount`, GIVEN that the chain-wide
committed total is at least the sum of the accounts' committed balances (C12.total_ge_sum supplies this). -/
theorem credit_le_amount (amount T : Int) (bs : List Int) (ha : 0 ≤ amount) (hT : 0 < T) (hb : ∀ b ∈ bs, 0 ≤ b)
    (hsum : sumBals bs ≤ T) : totalCredit (accDelta amount T) bs ≤ amount * P := by
  have hnn : 0 ≤ amount * P * P := Int.mul_nonneg (Int.mul_nonneg ha (by decide)) (by decide)
  have hd : 0 ≤ accDelta amount T := by unfold accDelta; exact Int.tdiv_nonneg hnn (Int.le_of_lt hT)
  have h1 := totalCredit_le _ hd bs hb
  have hs0 : 0 ≤ sumBals bs := by
    clear h1 hsum
    induction bs with
    | nil => simp [sumBals]
    | cons b bs ih => have := hb b (List.mem_cons_self ..); have := ih (fun x hx => hb x (List.mem_cons_of_mem _ hx)); simp only [sumBals]; omega
  have h2 : accDelta amount T * sumBals bs ≤ accDelta amount T * T := Int.mul_le_mul_of_nonneg_left hsum hd
  have h3 : accDelta amount T * T ≤ amount * P * P := by
    unfold accDelta; rw [Int.tdiv_eq_ediv_of_nonneg hnn]; exact Int.ediv_mul_le _ (by omega)
  have h4 : totalCredit (accDelta amount T) bs * P ≤ amount * P * P := by omega
  exact Int.le_of_mul_le_mul_right h4 (by decide)

/-- committing just before a distribution earns nothing from earlier blocks: the deposit hook settles the old balance
at the current accumulator and re-bases the debt on the new balance, so the deposit itself changes nothing claimable … -/
theorem no_retroactive (pending acc bal debt x : Int) :
    claimable (pending + pendingDelta acc bal debt) acc (bal + x) (debtOf acc (bal + x)) = claimable pending acc bal debt := by
  simp [claimable, pendingDelta, debtOf]

/-- … and afterwards the new shares earn exactly the later increments -/
theorem later_accrual (pending acc acc' bal : Int) :
    claimable pending acc' bal (debtOf acc bal) = pending + ((acc' - acc) * bal).tdiv P := by
  simp only [claimable, pendingDelta, debtOf]; congr 2; rw [Int.sub_mul]

/-- a claim never pays more than is owed to the claimer -/
theorem claim_truncates (pending : Int) (h : 0 ≤ pending) : claimPaid pending * P ≤ pending := tdiv_mul_le h


/-! ### every reward denom is processed once -/

theorem extLoop_nodup (seen ext : List String) : (extLoop seen ext).Nodup ∧ ∀ d ∈ extLoop seen ext, d ∉ seen := by
  induction ext generalizing seen with
  | nil => simp [extLoop]
  | cons e es ih =>
    unfold extLoop
    split
    · exact ih seen
    · rename_i hc
      obtain ⟨h1, h2⟩ := ih (e :: seen)
      refine ⟨List.nodup_cons.mpr ⟨fun hm => ?_, h1⟩, fun d hd => ?_⟩
      · exact h2 e hm (List.mem_cons_self ..)
      · rcases List.mem_cons.mp hd with h | h
        · subst h; simpa using hc
        · exact fun hs => h2 d h (List.mem_cons_of_mem _ hs)

/-- whatever governance or incentives put into a pool's external reward denoms (duplicates, Eden, the base currency itself),
the list the hooks walk names every denom once — provided the "already listed" set is seeded with the denom that heads the list -/
theorem rewardDenoms_nodup (base : String) (edenOn : Bool) (ext : List String) (hb : base ≠ "ueden") :
    (rewardDenoms base edenOn ext).Nodup := by
  obtain ⟨h1, h2⟩ := extLoop_nodup ["ueden", base] ext
  unfold rewardDenoms rewardDenomsSeeded
  cases edenOn
  · simp only [Bool.false_eq_true, if_false, List.append_nil, List.singleton_append, List.nodup_cons]
    exact ⟨fun hm => h2 base hm (by simp), h1⟩
  · simp only [if_true, List.cons_append, List.nil_append, List.nodup_cons, List.mem_cons, not_or]
    exact ⟨⟨hb, fun hm => h2 base hm (by simp)⟩, fun hm => h2 "ueden" hm (by simp), h1⟩

theorem count_one_of_nodup (ds : List String) (d : String) (hn : ds.Nodup) (hd : d ∈ ds) : ds.count d = 1 := by
  induction ds with
  | nil => simp at hd
  | cons e es ih =>
    obtain ⟨hne, hn'⟩ := List.nodup_cons.mp hn
    rcases List.mem_cons.mp hd with h | h
    · subst h; simp [List.count_eq_zero_of_not_mem hne]
    · have : e ≠ d := fun he => hne (he ▸ h)
      simp [this, ih hn' h]

/-- one pass of the hook changes nothing claimable (for withdrawals and deposits alike) … -/
theorem hookPass_claimable (acc balAfter x : Int) (u : UR) :
    claimable (hookPass acc balAfter x u).pending acc balAfter (hookPass acc balAfter x u).debt =
    claimable u.pending acc (balAfter + x) u.debt := by
  simp [claimable, pendingDelta, debtOf, hookPass]

/-- … so a withdrawal or deposit through a duplicate-free denom list leaves every listed denom's claimable amount as it was -/
theorem hookOver_claimable (ds : List String) (d : String) (hn : ds.Nodup) (hd : d ∈ ds) (acc balAfter x : Int) (u : UR) :
    claimable (hookOver ds d acc balAfter x u).pending acc balAfter (hookOver ds d acc balAfter x u).debt =
    claimable u.pending acc (balAfter + x) u.debt := by
  have hc : ds.count d = 1 := count_one_of_nodup ds d hn hd
  simp only [hookOver, hc, hookPasses]
  exact hookPass_claimable acc balAfter x u

/-- a second pass credits `acc · x` once more: whatever the withdrawn shares had accrued over the pool's whole life, unfunded -/
theorem hookPass_twice (acc balAfter x : Int) (u : UR) :
    claimable (hookPasses acc balAfter x 2 u).pending acc balAfter (hookPasses acc balAfter x 2 u).debt =
    claimable u.pending acc (balAfter + x) u.debt + (acc * x).tdiv P := by
  simp only [hookPasses, hookPass, claimable, pendingDelta, debtOf]
  have : acc * (balAfter + x) - acc * balAfter = acc * x := by rw [Int.mul_add]; omega
  simp [this]

/-- the hook must be told the number of SHARES that moved: told `y` when `x` shares were withdrawn, it settles the accrual on a balance
of `balAfter + y` — what becomes claimable is off by the accrual of `y − x` shares over the pool's whole life … -/
theorem hookPass_reported (acc balAfter y : Int) (u : UR) :
    claimable (hookPass acc balAfter y u).pending acc balAfter (hookPass acc balAfter y u).debt =
    u.pending + pendingDelta acc (balAfter + y) u.debt := by
  simp [claimable, pendingDelta, debtOf, hookPass]

/-- … WITNESS (the shape of seeded change C13-4): 1000 shares unbonded at redemption rate 1.075 and the hook told the 1075 USDC paid out:
with an accumulator of 5 per share, 5375 become claimable where 5000 had accrued. -/
theorem hook_wrong_unit_witness :
    claimable (hookPass (5 * P) 0 1075 ⟨0, 0⟩).pending (5 * P) 0 (hookPass (5 * P) 0 1075 ⟨0, 0⟩).debt = 5375 ∧
    claimable (hookPass (5 * P) 0 1000 ⟨0, 0⟩).pending (5 * P) 0 (hookPass (5 * P) 0 1000 ⟨0, 0⟩).debt = 5000 := by
  constructor <;> decide

/-- WITNESS (the shape of seeded change C13-3): the "already listed" set seeded with the constant `uusdc` on a chain whose USDC is
an ibc/ voucher, and a pool that has had an incentive in USDC: the base currency is listed twice; with the code's seed it is not. -/
theorem constant_seed_witness :
    rewardDenomsSeeded ["ueden", "uusdc"] "ibc/USDC" true ["ibc/USDC"] = ["ibc/USDC", "ueden", "ibc/USDC"] ∧
    rewardDenoms "ibc/USDC" true ["ibc/USDC"] = ["ibc/USDC", "ueden"] ∧
    (hookOver ["ibc/USDC", "ueden", "ibc/USDC"] "ibc/USDC" (2 * P) 25 75 ⟨0, 2 * P * 100⟩).pending = 150 := by
  refine ⟨by decide, by decide, by decide⟩

/-! ### solvency -/

def Inv (s : St) : Prop := s.owed + s.reserved ≤ s.bal * P ∧ 0 ≤ s.reserved

/-- every accepted ledger op keeps the module able to pay everything it has credited -/
theorem step_inv {s s' : St} {op : Op} (hi : Inv s) (h : step s op = .ok s') : Inv s' := by
  obtain ⟨h1, h2⟩ := hi
  cases op with
  | fundIncentive a =>
    simp only [step] at h; split at h; · simp at h
    simp only [Except.ok.injEq] at h; subst h
    refine ⟨?_, ?_⟩ <;> simp only [Int.add_mul]
    · omega
    · have : 0 ≤ a * P := Int.mul_nonneg (by omega) (by decide); omega
  | creditIncentive c =>
    simp only [step] at h; split at h; · simp at h
    split at h; · simp at h
    simp only [Except.ok.injEq] at h; subst h
    exact ⟨by simp only; omega, by simp only; omega⟩
  | collect rev out credit =>
    simp only [step] at h; split at h; · simp at h
    split at h; · simp at h
    simp only [Except.ok.injEq] at h; subst h
    refine ⟨?_, h2⟩
    simp only [Int.sub_mul, Int.add_mul] at *; omega
  | claim paid dec =>
    simp only [step] at h; split at h; · simp at h
    split at h; · simp at h
    simp only [Except.ok.injEq] at h; subst h
    refine ⟨?_, h2⟩
    simp only [Int.sub_mul]; omega

theorem run_inv (s : St) (ops : List Op) (hi : Inv s) : Inv (run s ops) := by
  induction ops generalizing s with
  | nil => exact hi
  | cons op ops ih =>
    apply ih
    unfold stepTx
    cases h : step s op with
    | error e => exact hi
    | ok s' => exact step_inv hi h

/-- so every claim can be paid whatever the order of claimants: what is owed never exceeds the balance -/
theorem solvent (ops : List Op) : (run {} ops).owed ≤ (run {} ops).bal * P := by
  have := run_inv {} ops ⟨by decide, by decide⟩
  obtain ⟨h1, h2⟩ := this; omega

/-- WITNESS (before 9e4b321): 3000 of pool revenue, portions 60/30/10 with provider portion 25 %: the module credits 1800 to LPs
but `consumerPortion := stakerRevenueCoins − providerPortion` sends 900 + 75 + 825 = 1800 out, keeping 1200: the ledger refuses
that split (`overCredit`), i.e. the code's block is not a solvency-preserving step. -/
theorem dex_split_witness : step {} (.collect 3000 1800 (1800 * P)) = .error .overCredit ∧
    step {} (.collect 3000 1200 (1800 * P)) = .ok { bal := 1800, owed := 1800 * P, reserved := 0 } := by
  constructor <;> rfl

/-- WITNESS (before 8e2f9f4): 1000 of perpetual fees: 600 reach the module, but the stakers' 300 and the provider's share of the
protocol's 100 are paid OUT OF the module, which is left with 275 against 600 credited. -/
theorem perp_revenue_witness : step {} (.collect 600 325 (600 * P)) = .error .overCredit := by rfl

/-- non-vacuity -/
example : Inv (run {} [.collect 3000 1200 (1800 * P), .fundIncentive 500, .creditIncentive (7 * P), .claim 12 (12 * P + 5), .collect 10 4 (5 * P)]) :=
  run_inv _ _ ⟨by decide, by decide⟩

end Elys.Rewards.C13
