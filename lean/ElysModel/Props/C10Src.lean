/-
C10 — source tie (see Props/C03Src.lean for what that is): the guards in front of the forced close of a leveraged-LP position (liquidation, stop loss:
x/leveragelp/keeper/begin_blocker.go) and of a perpetual position through the
stop-loss and the take-profit lists, x/perpetual/keeper/process_mtp.go `CheckAndCloseAtStopLoss` / `CheckAndCloseAtTakeProfit` — the
longest prefix of each function the translator understands, i.e. everything before `ForceCloseLong/Short`.  The model's `allowed` (on
which the C10 theorems are stated) is what the source says now, for every position and every price.
Property theorems only.
-/
import ElysModel.Gen.Arith.perpStopLossGuards
import ElysModel.Gen.Arith.perpTakeProfitGuards
import ElysModel.Gen.Arith.lpLiquidateGuards
import ElysModel.Gen.Arith.lpStopLossGuards
import ElysModel.Gen.Arith.perpLiquidateGuards
import ElysModel.Gen.Arith.perpOpenHealthGuards
import ElysModel.Gen.Arith.perpConsolidateHealthGuards
import ElysModel.Gen.Arith.lpOpenHealthGuards
import ElysModel.Gen.Arith.Table
import ElysModel.Close.Model
namespace Elys.Close.C10Src
open Elys Elys.Amm Elys.Close

/-- stop loss: the guards let a request through exactly when `allowed … .stopLoss` (position 1 = LONG; the guards treat anything else
as SHORT, an invalid position is refused later). A SHORT whose owner set no stop loss (0) is never let through. -/
theorem gen_perp_stopLoss (bc : String) (v : View) (hm : v.module = .perp) :
    (Gen.Arith.perpStopLossGuards bc v.price false (if v.long then 1 else 2) v.stopLoss = .ok true) ↔ allowed v .stopLoss = true := by
  unfold Gen.Arith.perpStopLossGuards allowed
  cases hl : v.long
  · simp [hm, hl]
    by_cases h0 : v.stopLoss = 0 <;> by_cases h1 : v.stopLoss ≤ v.price <;> simp [h0, h1, pure, Except.pure]
  · simp [hm, hl]
    by_cases h1 : v.price ≤ v.stopLoss <;> simp [h1, pure, Except.pure]

/-- take profit: likewise. -/
theorem gen_perp_takeProfit (bc : String) (v : View) (hm : v.module = .perp) :
    (Gen.Arith.perpTakeProfitGuards bc v.price false (if v.long then 1 else 2) v.takeProfit = .ok true) ↔ allowed v .takeProfit = true := by
  unfold Gen.Arith.perpTakeProfitGuards allowed
  cases hl : v.long
  · simp [hm, hl]
    by_cases h1 : v.price ≤ v.takeProfit <;> simp [h1, pure, Except.pure]
  · simp [hm, hl]
    by_cases h1 : v.takeProfit ≤ v.price <;> simp [h1, pure, Except.pure]

/-- when the price of the trading asset cannot be read, nothing is closed. -/
theorem gen_perp_no_price (bc : String) (p pos x : Int) :
    Gen.Arith.perpStopLossGuards bc p true pos x ≠ .ok true ∧ Gen.Arith.perpTakeProfitGuards bc p true pos x ≠ .ok true := by
  unfold Gen.Arith.perpStopLossGuards Gen.Arith.perpTakeProfitGuards
  constructor <;> simp

/-- leveraged-LP liquidation (x/leveragelp/keeper/begin_blocker.go `CheckAndLiquidateUnhealthyPosition`, everything in front of the cache
context of the forced close): let through exactly when the position is NOT above the safety factor and owes something. -/
theorem gen_lp_liquidate (v : View) (liab : Int) (hm : v.module = .lp) (hl : v.liabZero = decide (liab = 0)) :
    (Gen.Arith.lpLiquidateGuards v.health false v.safety liab = .ok true) ↔ allowed v .liquidate = true := by
  unfold Gen.Arith.lpLiquidateGuards allowed
  by_cases h1 : v.health > v.safety <;> by_cases h2 : liab = 0 <;> simp [hm, hl, h1, h2, pure, Except.pure]

/-- leveraged-LP stop loss (`CheckAndCloseAtStopLoss`): let through exactly when the lp token price is at or below the stop loss. -/
theorem gen_lp_stopLoss (v : View) (h : Int) (hm : v.module = .lp) :
    (Gen.Arith.lpStopLossGuards h false v.price false v.stopLoss = .ok true) ↔ allowed v .stopLoss = true := by
  unfold Gen.Arith.lpStopLossGuards allowed
  by_cases h1 : v.price ≤ v.stopLoss <;> simp [hm, h1, pure, Except.pure]

/-- when the health or the lp token price cannot be computed, nothing is closed. -/
theorem gen_lp_no_reading (h sf liab pr sl : Int) (e : Bool) :
    Gen.Arith.lpLiquidateGuards h true sf liab ≠ .ok true ∧ Gen.Arith.lpStopLossGuards h true pr e sl ≠ .ok true ∧
    Gen.Arith.lpStopLossGuards h false pr true sl ≠ .ok true := by
  unfold Gen.Arith.lpLiquidateGuards Gen.Arith.lpStopLossGuards
  refine ⟨?_, ?_, ?_⟩ <;> simp

/-- what the leveraged-LP guards read. -/
theorem gen_free_lp_guards :
    Gen.Arith.freeOf "lpLiquidateGuards" = ["#0.GetPositionHealth(#1, #2)", "#0.GetPositionHealth(#1, #2)#err", "#0.GetParams(#1).SafetyFactor",
      "#0.stableKeeper.UpdateInterestAndGetDebt(#1, #2.GetPositionAddress()).GetTotalLiablities()"] ∧
    Gen.Arith.freeOf "lpStopLossGuards" = ["#0.GetPositionHealth(#1, #2)", "#0.GetPositionHealth(#1, #2)#err",
      "#4.LpTokenPrice(#1, #0.oracleKeeper, #0.accountedPoolKeeper)", "#4.LpTokenPrice(#1, #0.oracleKeeper, #0.accountedPoolKeeper)#err", "#2.StopLossPrice"] := by decide

/-- what the guards read: the trading asset's price, the position's side and its own trigger price — not its health, not its owner. -/
theorem gen_free_perp_guards :
    Gen.Arith.freeOf "perpStopLossGuards" = ["#0.GetAssetPrice(#1, #2.TradingAsset)", "#0.GetAssetPrice(#1, #2.TradingAsset)#err", "#2.Position", "#2.StopLossPrice"] ∧
    Gen.Arith.freeOf "perpTakeProfitGuards" = ["#0.GetAssetPrice(#1, #2.TradingAsset)", "#0.GetAssetPrice(#1, #2.TradingAsset)#err", "#2.Position", "#2.TakeProfitPrice"] := by decide

/-- perpetual liquidation (x/perpetual/keeper/process_mtp.go `CheckAndLiquidateUnhealthyPosition`): the window from the reading of the
safety factor to the condition of the `if` whose branch force-closes the position — the branch is entered exactly when the model's
`allowed … .liquidate` holds of the position's stored health (written a few statements earlier from `GetMTPHealth`, after interest and
funding were settled) and the safety factor; nothing else is read. -/
theorem gen_perp_liquidate (bc : String) (v : View) (hm : v.module = .perp) :
    (Gen.Arith.perpLiquidateGuards bc v.safety v.health = .ok true) ↔ allowed v .liquidate = true := by
  unfold Gen.Arith.perpLiquidateGuards allowed
  by_cases h : v.health ≤ v.safety <;> simp [hm, h, pure, Except.pure]

theorem gen_free_perp_liquidate : Gen.Arith.freeOf "perpLiquidateGuards" = ["#0.GetSafetyFactor(#1)", "#2.MtpHealth"] := by decide

/-- opens start healthy, as the source has it now: the window of x/perpetual/keeper/process_open.go `ProcessOpen`, open_consolidate.go
`OpenConsolidate` and x/leveragelp/keeper/position_open.go `ProcessOpenLong` from the reading of the position's health to the statement
after the check lets an open go on exactly when the model's `openAccepted` holds of that health and the safety factor — unconditionally:
no other variable of the function takes part (the parameters in front are ignored), so no path through the window skips the check.
(That the health read here is the health the liquidation path computes is the probe rounds' clause, not this theorem's.) -/
theorem gen_open_starts_healthy (lev coll pool : Int) (bc : String) (health safety : Int) :
    (Gen.Arith.perpOpenHealthGuards lev coll pool bc health false safety = .ok true ↔ openAccepted health safety = true) ∧
    (Gen.Arith.perpConsolidateHealthGuards bc health false safety = .ok true ↔ openAccepted health safety = true) ∧
    (Gen.Arith.lpOpenHealthGuards pool health false safety = .ok true ↔ openAccepted health safety = true) := by
  unfold Gen.Arith.perpOpenHealthGuards Gen.Arith.perpConsolidateHealthGuards Gen.Arith.lpOpenHealthGuards openAccepted
  refine ⟨?_, ?_, ?_⟩ <;> by_cases h : health ≤ safety <;> simp [h, pure, Except.pure]

/-- a health that cannot be read refuses the open. -/
theorem gen_open_no_reading (lev coll pool : Int) (bc : String) (health safety : Int) :
    Gen.Arith.perpOpenHealthGuards lev coll pool bc health true safety ≠ .ok true ∧
    Gen.Arith.perpConsolidateHealthGuards bc health true safety ≠ .ok true ∧
    Gen.Arith.lpOpenHealthGuards pool health true safety ≠ .ok true := by
  unfold Gen.Arith.perpOpenHealthGuards Gen.Arith.perpConsolidateHealthGuards Gen.Arith.lpOpenHealthGuards
  refine ⟨?_, ?_, ?_⟩ <;> simp

/-- what the three windows read: the health of THIS position as the keeper's health function returns it, and the module's safety factor. -/
theorem gen_free_open_guards :
    Gen.Arith.freeOf "perpOpenHealthGuards" = ["#0.GetMTPHealth(#1, #2, ammPool, #7)", "#0.GetMTPHealth(#1, #2, ammPool, #7)#err", "#0.GetSafetyFactor(#1)"] ∧
    Gen.Arith.freeOf "lpOpenHealthGuards" = ["#0.GetPositionHealth(#1, #2)", "#0.GetPositionHealth(#1, #2)#err", "#0.GetSafetyFactor(#1)"] := by decide

end Elys.Close.C10Src
