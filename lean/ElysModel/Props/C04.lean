/-
C04 — a swap settles exactly as requested within the user's limit, or changes nothing. Property theorems only
(about the batch loop; what one applied request does to balances is checked on the real code, see harness/c04.go).
-/
import ElysModel.Batch.Model
namespace Elys.Batch.C04

variable {σ : Type}

theorem remove_length_le (q : List Req) (id : Nat) : (remove q id).length ≤ q.length := List.length_filter_le _ _

theorem remove_length_lt (q : List Req) (r : Req) (h : r ∈ q) : (remove q r.id).length < q.length := by
  unfold remove
  have : (q.filter (fun x => x.id != r.id)).length < q.length := by
    apply List.length_filter_lt_length_iff_exists.mpr
    exact ⟨r, h, by simp⟩
  exact this

theorem mem_of_selectOne {q : List Req} {p : Option String} {r : Req} (h : selectOne q p = some r) : r ∈ q := by
  cases p with
  | none => simp only [selectOne] at h; exact List.mem_of_head? h
  | some p => simp only [selectOne] at h; exact List.mem_of_find?_eq_some h

/-- every iteration on a non-empty queue deletes at least one request -/
theorem iter_shrinks (apply : σ → Req → Option σ) (slip : σ → Req → Int) (s : σ) (q : List Req) (hq : q ≠ []) :
    (iter apply slip s q).2.1.length < q.length := by
  unfold iter
  cases h1 : selectOne q none with
  | none => simp only [selectOne] at h1; cases q <;> simp_all
  | some m1 =>
    have hm1 := mem_of_selectOne h1
    simp only
    cases h2 : selectOne (remove q m1.id) (some m1.rkey) with
    | none =>
      simp only
      cases apply s m1 <;> exact remove_length_lt q m1 hm1
    | some m2 =>
      have hm2' := mem_of_selectOne h2
      have hm2 : m2 ∈ q := (List.mem_filter.mp hm2').1
      simp only
      cases apply s m1 <;> cases apply s m2 <;> simp only
      · exact Nat.lt_of_le_of_lt (remove_length_le _ _) (remove_length_lt q m1 hm1)
      · exact remove_length_lt q m1 hm1
      · exact remove_length_lt q m2 hm2
      · split
        · exact remove_length_lt q m1 hm1
        · exact remove_length_lt q m2 hm2

theorem loop_empty (apply : σ → Req → Option σ) (slip : σ → Req → Int) (n : Nat) (s : σ) (q : List Req) (w : List Nat)
    (h : q.length ≤ n) : (loop apply slip n s q w).2.1 = [] := by
  induction n generalizing s q w with
  | zero => have : q = [] := List.eq_nil_of_length_eq_zero (by omega); subst this; rfl
  | succ n ih =>
    cases q with
    | nil => rfl
    | cons r rs =>
      have hs := iter_shrinks apply slip s (r :: rs) (by simp)
      simp only [loop]
      apply ih
      have hl : (r :: rs).length ≤ n + 1 := h
      show (iter apply slip s (r :: rs)).2.1.length ≤ n
      omega

/-- the batch always ends with an EMPTY queue: no request lingers into later blocks, whatever `apply` does -/
theorem loop_terminates_empty (apply : σ → Req → Option σ) (slip : σ → Req → Int) (s : σ) (q : List Req) :
    (execute apply slip s q).2.1 = [] := loop_empty apply slip q.length s q [] (Nat.le_refl _)

/-- ids written in one iteration are ids of requests that leave the queue in that iteration -/
theorem iter_written_removed (apply : σ → Req → Option σ) (slip : σ → Req → Int) (s : σ) (q : List Req) :
    ∀ id ∈ (iter apply slip s q).2.2, (∃ r ∈ q, r.id = id) ∧ ∀ r ∈ (iter apply slip s q).2.1, r.id ≠ id := by
  unfold iter
  cases h1 : selectOne q none with
  | none => simp
  | some m1 =>
    have hm1 := mem_of_selectOne h1
    simp only
    cases h2 : selectOne (remove q m1.id) (some m1.rkey) with
    | none =>
      simp only
      cases apply s m1 with
      | none => simp
      | some s' =>
        intro id hid; simp at hid; subst hid
        exact ⟨⟨m1, hm1, rfl⟩, fun r hr => by simp [remove] at hr; exact hr.2⟩
    | some m2 =>
      have hm2 : m2 ∈ q := (List.mem_filter.mp (mem_of_selectOne h2)).1
      simp only
      cases apply s m1 <;> cases apply s m2 <;> simp only
      · simp
      · simp
      · simp
      · split
        · intro id hid; simp at hid; subst hid
          exact ⟨⟨m1, hm1, rfl⟩, fun r hr => by simp [remove] at hr; exact hr.2⟩
        · intro id hid; simp at hid; subst hid
          exact ⟨⟨m2, hm2, rfl⟩, fun r hr => by simp [remove] at hr; exact hr.2⟩

/-- a request whose `apply` fails contributes no state change: an iteration either keeps the state or moves to the result of
ONE successful `apply` of a queued request (the cache context of every other attempt is discarded) -/
theorem atomic (apply : σ → Req → Option σ) (slip : σ → Req → Int) (s : σ) (q : List Req) :
    (iter apply slip s q).1 = s ∨ ∃ r ∈ q, apply s r = some (iter apply slip s q).1 := by
  unfold iter
  cases h1 : selectOne q none with
  | none => left; rfl
  | some m1 =>
    have hm1 := mem_of_selectOne h1
    simp only
    cases h2 : selectOne (remove q m1.id) (some m1.rkey) with
    | none =>
      simp only
      cases ha : apply s m1 with
      | none => left; rfl
      | some s' => right; exact ⟨m1, hm1, ha⟩
    | some m2 =>
      have hm2 : m2 ∈ q := (List.mem_filter.mp (mem_of_selectOne h2)).1
      simp only
      cases ha1 : apply s m1 <;> cases ha2 : apply s m2 <;> simp only
      · exact Or.inl trivial
      · exact Or.inl trivial
      · exact Or.inl trivial
      · split
        · right; exact ⟨m1, hm1, ha1⟩
        · right; exact ⟨m2, hm2, ha2⟩

/-- non-vacuity: three requests, the middle one failing -/
example :
    let q : List Req := [⟨1, "a/1/b", "b/1/a"⟩, ⟨2, "b/1/a", "a/1/b"⟩, ⟨3, "c/2/d", "d/2/c"⟩]
    let apply : Nat → Req → Option Nat := fun s r => if r.id = 2 then none else some (s + r.id)
    (execute apply (fun _ _ => 0) 0 q).2.1 = [] ∧ (execute apply (fun _ _ => 0) 0 q).1 = 4 := by decide

end Elys.Batch.C04
