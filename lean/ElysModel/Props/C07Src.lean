/-
C07 — source tie (see Props/C03Src.lean for what that is): the vault's redemption rate and interest-rate band,
x/stablestake/keeper/{params,interest_rate}.go, and the guards in front of `Borrow`'s effects (debt.go; the longest prefix of the function the
translator understands).  Property theorems only.
-/
import ElysModel.Lemmas.GenTie
import ElysModel.Gen.Arith.getRedemptionRate
import ElysModel.Gen.Arith.interestRateComputation
import ElysModel.Gen.Arith.borrowGuards
import ElysModel.Gen.Arith.bondShares
import ElysModel.Gen.Arith.unbondAmount
import ElysModel.Lemmas.Stable
import ElysModel.Gen.Arith.Table
import ElysModel.Stable.Model
namespace Elys.Stable.C07Src
open Elys Elys.Amm Elys.Stable

/-- whenever `GetRedemptionRate` as the source has it now returns, it returns the model's `rate` (the source also asserts
the 2^256 range of the quotient, which the model leaves out). -/
theorem gen_rate (tv supply r : Int) (h : Gen.Arith.getRedemptionRate supply tv = .ok r) : r = Stable.rate tv supply := by
  unfold Gen.Arith.getRedemptionRate at h
  unfold Stable.rate Dec.ofInt
  by_cases hs : supply = 0
  · simp [hs] at h; simp [hs]; cases h; rfl
  · simp only [hs, if_false] at h
    simp only [hs, if_false]
    unfold quoC chk at h
    have hp : supply * P ≠ 0 := by
      intro h0; rcases Int.mul_eq_zero.mp h0 with h1 | h1
      · exact hs h1
      · exact absurd h1 (by decide)
    simp only [hp, if_false] at h
    split at h
    · cases h; rfl
    · cases h

/-- … and it reads exactly the share supply and the stated total value. -/
theorem gen_free_rate : Gen.Arith.freeOf "getRedemptionRate" =
    ["#0.bk.GetSupply(#1, types.GetShareDenom()).Amount", "#0.GetParams(#1).TotalValue"] := by decide

/-- the vault's interest rate as the source computes it now stays inside the governance band [min, max], whatever the
utilisation, the previous rate and the step sizes. -/
theorem interest_rate_in_band (tv rate mx mn inc dec hgf bal r : Int) (htv : tv ≠ 0) (hmm : mn ≤ mx)
    (h : Gen.Arith.interestRateComputation tv rate mx mn inc dec hgf bal = .ok r) : mn ≤ r ∧ r ≤ mx := by
  unfold Gen.Arith.interestRateComputation at h
  simp only [htv, if_false] at h
  obtain ⟨t1, _, h⟩ := bind_ok h
  obtain ⟨t2, _, h⟩ := bind_ok h
  obtain ⟨t3, _, h⟩ := bind_ok h
  obtain ⟨t4, _, h⟩ := bind_ok h
  obtain ⟨ir, _, h⟩ := bind_ok h
  exact clamp_in ir mn mx r hmm h

/-- non-vacuity: default-like parameters (band 10 %–17 %, rate 15 %, steps 1 %, utilisation 50 %, target 50 %) move one step up, to 16 %. -/
example : Gen.Arith.interestRateComputation 1000000 150000000000000000 170000000000000000 100000000000000000
    10000000000000000 10000000000000000 P 500000 = .ok 160000000000000000 := by rfl

/-- what `InterestRateComputation` reads: the vault parameters and the vault's own deposit-denom balance. -/
theorem gen_free_interestRate : Gen.Arith.freeOf "interestRateComputation" =
    ["#0.GetParams(#1).TotalValue", "#0.GetParams(#1).InterestRate", "#0.GetParams(#1).InterestRateMax", "#0.GetParams(#1).InterestRateMin",
     "#0.GetParams(#1).InterestRateIncrease", "#0.GetParams(#1).InterestRateDecrease", "#0.GetParams(#1).HealthGainFactor",
     "#0.bk.GetBalance(#1, authtypes.NewModuleAddress(types.ModuleName), #0.GetDepositDenom(#1)).Amount"] := by decide

/-- the guards in front of `Borrow`'s effects, as the source has them now, let a borrow through only under the 90 % cap — whatever
the vault's parameters are (they read `TotalValue` and the vault's balance, nothing else). -/
theorem gen_borrow_cap (s : St) (amt : Int) (h : Gen.Arith.borrowGuards false s.tv s.cash amt = .ok true) :
    10 * (s.tv - s.cash + amt) ≤ 9 * s.tv := by
  unfold Gen.Arith.borrowGuards at h
  simp only [Bool.false_eq_true, if_false] at h
  obtain ⟨t1, h1, h⟩ := bind_ok h
  obtain ⟨t2, h2, h⟩ := bind_ok h
  obtain ⟨t3, h3, h⟩ := bind_ok h
  have e1 := chk_ok h1
  unfold mulC at h2
  have e2 := chk_ok h2
  unfold quoC at h3
  have hne : (10 * P) ≠ 0 := by decide
  simp only [hne, if_false] at h3
  have e3 := chk_ok h3
  subst e1 e2 e3
  have hc : ¬ (borrowedAfter s amt > maxAllowed s) := by
    unfold borrowedAfter maxAllowed Dec.ofInt
    intro hgt
    simp only [hgt, if_true] at h
    cases h
  rw [cap_iff] at hc
  omega

/-- … and refuse it with `ErrMaxBorrowAmount` above the cap (when the 2^256 range assertions hold). -/
theorem gen_borrow_refused (s : St) (amt : Int) (r : Except Amm.Err Bool) (hr : Gen.Arith.borrowGuards false s.tv s.cash amt = r)
    (h : 10 * (s.tv - s.cash + amt) > 9 * s.tv) : r ≠ .ok true := by
  intro hok
  rw [hok] at hr
  have := gen_borrow_cap s amt hr
  omega

/-- what `Borrow`'s guards read: whether the coin is in the deposit denom, the stated total value, the vault's own balance, the amount —
no other parameter of the vault. -/
theorem gen_free_borrowGuards : Gen.Arith.freeOf "borrowGuards" =
    ["#0.GetDepositDenom(#1) != #3.Denom", "#0.GetParams(#1).TotalValue",
     "#0.bk.GetBalance(#1, authtypes.NewModuleAddress(types.ModuleName), #0.GetDepositDenom(#1)).Amount", "#3.Amount"] := by decide

/-- the shares `Bond` mints, as the source has it now (x/stablestake/keeper/msg_server_bond.go, the window from the replacement of a zero
rate to the computation of the share amount): whenever it returns, it returns the model's `sharesFor` of the deposit at the rate read
before — round(amount / rate), a zero rate counting as one. (The source also asserts the 2^256 range of the quotient.) -/
theorem gen_bond_shares (r a m : Int) (h : Gen.Arith.bondShares r a = .ok m) : m = sharesFor a r := by
  unfold Gen.Arith.bondShares at h
  unfold sharesFor Dec.ofInt
  by_cases hr : r = 0
  · simp only [hr, if_true] at h ⊢
    obtain ⟨r1, h1, h⟩ := bind_ok h
    cases h1
    obtain ⟨t, ht, h⟩ := bind_ok h
    cases h
    unfold quoC chk at ht
    have : (P : Int) ≠ 0 := by decide
    simp only [this, if_false] at ht
    split at ht <;> cases ht
    rfl
  · simp only [hr, if_false] at h ⊢
    obtain ⟨r1, h1, h⟩ := bind_ok h
    cases h1
    obtain ⟨t, ht, h⟩ := bind_ok h
    cases h
    unfold quoC chk at ht
    simp only [hr, if_false] at ht
    split at ht <;> cases ht
    rfl

/-- the amount `Unbond` pays, as the source has it now (msg_server_unbond.go, the statement that computes it): the model's `payoutFor`
of the shares at the rate read before the burn — round(shares · rate). -/
theorem gen_unbond_amount (r s p : Int) (h : Gen.Arith.unbondAmount r s = .ok p) : p = payoutFor s r := by
  unfold Gen.Arith.unbondAmount at h
  unfold payoutFor Dec.ofInt
  obtain ⟨t, ht, h⟩ := bind_ok h
  cases h
  unfold mulC chk at ht
  split at ht <;> cases ht
  rfl

/-- non-vacuity: 1000 deposited at a rate of 1.25 mints 800 shares; 800 shares at 1.25 pay 1000; at rate 0 a deposit mints one for one. -/
example : Gen.Arith.bondShares 1250000000000000000 1000 = .ok 800 ∧ Gen.Arith.unbondAmount 1250000000000000000 800 = .ok 1000 ∧
    Gen.Arith.bondShares 0 1000 = .ok 1000 := ⟨rfl, rfl, rfl⟩

/-- what the two windows read besides the rate: the amount of the coin deposited resp. of the share coin handed in. -/
theorem gen_free_bond_unbond : Gen.Arith.freeOf "bondShares" = ["depositCoin.Amount"] ∧ Gen.Arith.freeOf "unbondAmount" = ["shareCoin.Amount"] := by decide

end Elys.Stable.C07Src
