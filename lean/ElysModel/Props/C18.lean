/-
C18 (partial) — no reachable state makes block processing fail. Property theorems only.
The model is the error skeleton of the one end-blocker whose error reaches ABCI. What it CANNOT exhibit: panics from
arithmetic deep inside unmodelled keepers, out-of-gas, IAVL/DB faults, nil-pointer bugs — those are reached only by the
fault-sequence runs on the real application (tests).
-/
import ElysModel.Blocks.Model
namespace Elys.Blocks.C18

/-- the environments validation and the standard wiring guarantee, whatever users and the oracle do -/
def Guaranteed (e : Env) : Prop :=
  e.usdcEntry = true ∧ e.revenueAddrValid = true ∧ e.blocksPerYearNonzero = true ∧ e.bankSendFails = false

/-- with the repaired conversion, masterchef's end-blocker succeeds in every guaranteed environment — in particular
whether or not a fee conversion fails (oracle outage, dust, emptied pools) -/
theorem edenMint_ok (a : Int) : edenMint true a = .ok () := by
  unfold edenMint mintCoins
  simp only [if_true]
  split
  · rename_i h; simp only [show ¬ (a.tdiv P ≤ 0) by omega, if_false]
  · rfl

theorem edenMints_ok (as : List Int) : edenMints true as = .ok () := by
  induction as with
  | nil => rfl
  | cons a as ih => simp only [edenMints, edenMint_ok, ih]

/-- … whatever the pools' Eden allocations of the block are (dust pools, tiny yearly amounts) and whether or not the Eden price
has rounded to zero (a lopsided ELYS pool) -/
theorem ok_under (e : Env) (h : Guaranteed e) : endBlockOutcome true e = .ok () := by
  obtain ⟨h1, h2, h3, h4⟩ := h
  cases hz : e.edenPriceZero <;> simp [endBlockOutcome, h1, h2, h3, h4, hz, edenMints_ok]

/-- WITNESS (before 5353f3f): a guaranteed environment in which the Eden price has rounded to zero — five sales of three reserves
of ELYS each into the ELYS/USDC pool (scenario c18-elys-pool-lopsided) — halted the chain -/
theorem eden_price_halt_witness :
    let e : Env := { usdcEntry := true, revenueAddrValid := true, blocksPerYearNonzero := true, conversionFails := false,
                     bankSendFails := false, edenPriceZero := true, edenAllocs := [] }
    Guaranteed e ∧ endBlockOutcome true e true false = .error .edenPrice ∧ endBlockOutcome true e = .ok () := by
  refine ⟨by simp [Guaranteed], rfl, rfl⟩

/-- before 932554d exactly the allocations strictly between 0 and 1 base unit halted the chain -/
theorem edenMint_old_fails_iff (a : Int) : edenMint false a = .error .mint ↔ 0 < a ∧ a < P := by
  unfold edenMint mintCoins P
  simp only [Bool.false_eq_true, if_false]
  by_cases ha : a > 0
  · have hd : a.tdiv 1000000000000000000 = a / 1000000000000000000 := Int.tdiv_eq_ediv_of_nonneg (by omega)
    simp only [ha, if_true, hd]
    by_cases hw : a / 1000000000000000000 ≤ 0
    · simp only [hw, if_true]
      constructor
      · intro _; exact ⟨trivial, by omega⟩
      · intro _; trivial
    · simp only [hw, if_false]
      constructor
      · intro h; cases h
      · rintro ⟨_, h1⟩; exfalso; omega
  · simp only [ha, if_false]
    constructor
    · intro h; cases h
    · rintro ⟨h0, _⟩; exact h0.elim

/-- WITNESS (before 932554d): a pool with Eden rewards on and an allocation of half a base unit — what is left when liquidity
providers have exited all but dust (scenario c18-eden-rewards-dust-pool) -/
theorem eden_dust_halt_witness :
    let e : Env := { usdcEntry := true, revenueAddrValid := true, blocksPerYearNonzero := true, conversionFails := false,
                     bankSendFails := false, edenPriceZero := false, edenAllocs := [3 * P, P / 2] }
    endBlockOutcome true e false = .error .mint ∧ endBlockOutcome true e true = .ok () := by
  constructor <;> rfl

/-- the epochs begin-blocker survives the estaking hook whatever the provider's vesting claim does (since 7acf6c7) … -/
theorem epoch_start_ok (claim : Except Unit Unit) : epochStart [estakingHook true claim] = .ok () := by
  simp [epochStart, estakingHook]

/-- … WITNESS: before, a failing claim (zero-block schedule, unpayable vesting denom, full vesting list, refused recipient) panicked -/
theorem epoch_start_halt_witness : epochStart [estakingHook false (.error ())] = .error () := by rfl

/-- with the validated portion the protocol's remainder is never negative, for every amount … -/
theorem afterProvider_nonneg (c p : Int) (hc : 0 ≤ c) (hp : portionValid true p = true) : 0 ≤ afterProvider c p := by
  unfold portionValid at hp
  simp only [Bool.not_true, Bool.false_or, Bool.and_eq_true, decide_eq_true_eq] at hp
  obtain ⟨hp0, hp1⟩ := hp
  unfold afterProvider
  have hcp : 0 ≤ c * p := Int.mul_nonneg hc hp0
  have h1 : c * p ≤ c * P := Int.mul_le_mul_of_nonneg_left hp1 hc
  rw [Int.tdiv_eq_ediv_of_nonneg hcp]
  unfold P at *
  generalize c * p = x at *
  omega

/-- … WITNESS: the validation before f5b320c accepted a portion of 2.5, which leaves −1.5 coins of 1 -/
theorem portion_halt_witness : portionValid false (5 * P / 2) = true ∧ portionValid true (5 * P / 2) = false ∧ afterProvider P (5 * P / 2) < 0 := by
  refine ⟨by decide, by decide, by decide⟩

/-- each hypothesis is needed: dropping it halts -/
theorem usdc_needed (e : Env) (h : e.usdcEntry = false) : endBlockOutcome true e = .error .noUsdc := by
  simp [endBlockOutcome, h]

theorem revenueAddr_needed (e : Env) (h0 : e.usdcEntry = true) (hb : e.bankSendFails = false) (h : e.revenueAddrValid = false) :
    endBlockOutcome true e = .error .revenueAddr := by
  simp [endBlockOutcome, h, h0, hb]

theorem blocksPerYear_needed (e : Env) (h0 : e.usdcEntry = true) (hb : e.bankSendFails = false) (h1 : e.revenueAddrValid = true)
    (h : e.blocksPerYearNonzero = false) : endBlockOutcome true e = .error .blocksPerYear := by
  simp [endBlockOutcome, h, h0, h1, hb]

/-- WITNESS (before 9e8da3f): a guaranteed environment in which one fee conversion fails — a fee paid in a denom whose best pool
is an oracle pool with a missing price — halted the chain -/
theorem conversion_halt_witness :
    let e : Env := { usdcEntry := true, revenueAddrValid := true, blocksPerYearNonzero := true, conversionFails := true,
                     bankSendFails := false, edenPriceZero := false, edenAllocs := [] }
    endBlockOutcome false e = .error .conversion ∧ endBlockOutcome true e = .ok () := by
  constructor <;> rfl

/-- the EdenB burn writes the store before the hook that re-initialises the distribution starting info, so over every history of
burns and commits (any amounts) the recorded stake never exceeds the stored one and the end-blocker's withdrawal cannot panic -/
theorem edenB_withdraw_ok (ops : List EdenBOp) :
    withdrawEdenB (ops.foldl (edenBStep true) {}) = .ok (ops.foldl (edenBStep true) {}) := by
  have key : ∀ (s : EdenB), s.started ≤ s.stored → (ops.foldl (edenBStep true) s).started ≤ (ops.foldl (edenBStep true) s).stored := by
    induction ops with
    | nil => intro s h; exact h
    | cons op ops ih =>
      intro s _
      apply ih
      cases op <;> simp [edenBStep, burnEdenB, commitEdenB]
  have := key {} (by decide)
  unfold withdrawEdenB
  split
  · omega
  · rfl

/-- WITNESS (the shape of seeded change C18-3): 100 000 EdenB committed; a first burn of 10 000 whose hook reads the store before it
is written leaves the starting info at 100 000 against 90 000 stored: the next withdrawal halts the chain; with the code's order
it does not. -/
theorem edenB_stale_start_witness :
    withdrawEdenB ([EdenBOp.commit 100000, .burn 10000].foldl (edenBStep false) {}) = .error .stake ∧
    withdrawEdenB ([EdenBOp.commit 100000, .burn 10000].foldl (edenBStep true) {}) = .ok { stored := 90000, started := 90000 } := by
  constructor <;> rfl

/-! ### fee allocation in begin-block never exceeds the fees collected -/

theorem tdiv_floor {a c : Int} (ha : 0 ≤ a) (hc : 0 < c) : a.tdiv c * c ≤ a ∧ 0 ≤ a.tdiv c := by
  rw [Int.tdiv_eq_ediv_of_nonneg ha]
  exact ⟨Int.ediv_mul_le a (by omega), Int.ediv_nonneg ha (by omega)⟩

theorem reward_le {F f t T w : Int} (hP : 0 < P) (hT : 0 < T) (hF : 0 ≤ F) (hw : w * P ≤ F * f) (hf : f * T ≤ t * P) : w * T ≤ F * t := by
  have h1 : w * P * T ≤ F * f * T := Int.mul_le_mul_of_nonneg_right hw (by omega)
  have h2 : F * (f * T) ≤ F * (t * P) := Int.mul_le_mul_of_nonneg_left hf hF
  have h3 : (w * T) * P ≤ (F * t) * P := by grind
  exact Int.le_of_mul_le_mul_right h3 hP

theorem allocate_inv (fees rep T : Int) (hf : 0 ≤ fees) (hr0 : 0 ≤ rep) (hT : 0 < T) (ts : List Int) (hts : ∀ t ∈ ts, 0 ≤ t) (R : Int)
    (hR : (fees * rep).tdiv P * sumL ts ≤ R * T) : ∃ r, allocate fracTrunc fees rep T ts R = .ok r ∧ 0 ≤ r := by
  have hP : 0 < P := by decide
  obtain ⟨hF1, hF0⟩ := tdiv_floor (Int.mul_nonneg hf hr0) hP
  induction ts generalizing R with
  | nil =>
    refine ⟨R, rfl, ?_⟩
    simp only [sumL, Int.mul_zero] at hR
    by_cases h : R < 0
    · have : R * T < 0 := Int.mul_neg_of_neg_of_pos h hT
      omega
    · omega
  | cons t ts ih =>
    have ht : 0 ≤ t := hts t (List.mem_cons_self ..)
    obtain ⟨hf1, hf0⟩ := tdiv_floor (Int.mul_nonneg ht (Int.le_of_lt hP)) hT
    obtain ⟨hw1, hw0⟩ := tdiv_floor (Int.mul_nonneg hF0 hf0) hP
    have hwT := reward_le hP hT hF0 hw1 hf1
    have hS : 0 ≤ sumL ts := by
      have : ∀ l : List Int, (∀ x ∈ l, 0 ≤ x) → 0 ≤ sumL l := by
        intro l hl; induction l with
        | nil => simp [sumL]
        | cons x xs ihx => simp only [sumL]; have := hl x (List.mem_cons_self ..); have := ihx (fun y hy => hl y (List.mem_cons_of_mem _ hy)); omega
      exact this ts (fun y hy => hts y (List.mem_cons_of_mem _ hy))
    simp only [allocate, valReward, fracTrunc]
    simp only [sumL] at hR
    have hR' : (fees * rep).tdiv P * sumL ts ≤ (R - ((fees * rep).tdiv P * (t * P).tdiv T).tdiv P) * T := by grind
    have hnn : ¬ (R - ((fees * rep).tdiv P * (t * P).tdiv T).tdiv P < 0) := by
      intro hneg
      have h1 : (R - ((fees * rep).tdiv P * (t * P).tdiv T).tdiv P) * T < 0 := Int.mul_neg_of_neg_of_pos hneg hT
      have h2 : 0 ≤ (fees * rep).tdiv P * sumL ts := Int.mul_nonneg hF0 hS
      omega
    simp only [hnn, if_false]
    exact ih (fun y hy => hts y (List.mem_cons_of_mem _ hy)) _ hR'

/-- whatever the validators' tokens (any number of fee-sharing validators, any stakes summing to at most the total), whatever the
fees and whatever community tax validation permits (representatives' fraction in [0, 1]): with TRUNCATED power fractions the
running remainder of the allocation loop never goes negative, so `DecCoins.Sub` cannot panic in begin-block -/
theorem allocation_within_fees (fees rep T : Int) (ts : List Int) (hf : 0 ≤ fees) (hr0 : 0 ≤ rep) (hr1 : rep ≤ P) (hT : 0 < T)
    (hts : ∀ t ∈ ts, 0 ≤ t) (hsum : sumL ts ≤ T) : ∃ r, allocate fracTrunc fees rep T ts fees = .ok r ∧ 0 ≤ r := by
  have hP : 0 < P := by decide
  obtain ⟨hF1, hF0⟩ := tdiv_floor (Int.mul_nonneg hf hr0) hP
  have hS : 0 ≤ sumL ts := by
    have : ∀ l : List Int, (∀ x ∈ l, 0 ≤ x) → 0 ≤ sumL l := by
      intro l hl; induction l with
      | nil => simp [sumL]
      | cons x xs ihx => simp only [sumL]; have := hl x (List.mem_cons_self ..); have := ihx (fun y hy => hl y (List.mem_cons_of_mem _ hy)); omega
    exact this ts hts
  have hFle : (fees * rep).tdiv P ≤ fees := by
    have h1 : fees * rep ≤ fees * P := Int.mul_le_mul_of_nonneg_left hr1 hf
    have h2 : (fees * rep).tdiv P * P ≤ fees * P := by omega
    exact Int.le_of_mul_le_mul_right h2 hP
  apply allocate_inv fees rep T hf hr0 hT ts hts fees
  have h1 : (fees * rep).tdiv P * sumL ts ≤ fees * sumL ts := Int.mul_le_mul_of_nonneg_right hFle hS
  have h2 : fees * sumL ts ≤ fees * T := Int.mul_le_mul_of_nonneg_left hsum hf
  omega

/-- WITNESS (the shape of seeded change C18-4): stakes 4 : 1 : 1, community tax 0, one USDC of fees: power fractions rounded to
nearest sum to 1 + 10⁻¹⁸ and the third subtraction goes negative; truncated fractions leave a non-negative remainder. -/
theorem allocation_rounded_witness :
    allocate fracNearest (1000000 * P) P 1500000 [1000000, 250000, 250000] (1000000 * P) = .error .negativeCoin ∧
    allocate fracTrunc (1000000 * P) P 1500000 [1000000, 250000, 250000] (1000000 * P) = .ok 2000000 := by
  constructor <;> rfl

/-- a user transaction that fails (error or recovered panic) leaves the state exactly as it was -/
theorem tx_isolated {σ : Type} (s : σ) (tx : σ → Except Unit σ) (h : tx s = .error ()) : runTx s tx = s := by
  simp [runTx, h]

/-- non-vacuity -/
example : Guaranteed { usdcEntry := true, revenueAddrValid := true, blocksPerYearNonzero := true, conversionFails := true,
                       bankSendFails := false, edenPriceZero := false, edenAllocs := [P / 2, 0, 7 * P] } := by
  simp [Guaranteed]

end Elys.Blocks.C18
