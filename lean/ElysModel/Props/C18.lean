/-
C18 (partial) — no reachable state makes block processing fail. Property theorems only.
The model is the error skeleton of the one end-blocker whose error reaches ABCI. What it CANNOT exhibit: panics from
arithmetic deep inside unmodelled keepers, out-of-gas, IAVL/DB faults, nil-pointer bugs — those are reached only by the
fault-sequence runs on the real application (tests).
-/
import ElysModel.Blocks.Model
namespace Elys.Blocks.C18

/-- the environments validation and the standard wiring guarantee, whatever users and the oracle do -/
def Guaranteed (e : Env) : Prop :=
  e.usdcEntry = true ∧ e.revenueAddrValid = true ∧ e.blocksPerYearNonzero = true ∧ e.bankSendFails = false ∧
  e.edenPriceZero = false ∧ e.mintFails = false

/-- with the repaired conversion, masterchef's end-blocker succeeds in every guaranteed environment — in particular
whether or not a fee conversion fails (oracle outage, dust, emptied pools) -/
theorem ok_under (e : Env) (h : Guaranteed e) : endBlockOutcome true e = .ok () := by
  obtain ⟨h1, h2, h3, h4, h5, h6⟩ := h
  simp [endBlockOutcome, h1, h2, h3, h4, h5, h6]

/-- each hypothesis is needed: dropping it halts -/
theorem usdc_needed (e : Env) (h : e.usdcEntry = false) : endBlockOutcome true e = .error .noUsdc := by
  simp [endBlockOutcome, h]

theorem revenueAddr_needed (e : Env) (h0 : e.usdcEntry = true) (hb : e.bankSendFails = false) (h : e.revenueAddrValid = false) :
    endBlockOutcome true e = .error .revenueAddr := by
  simp [endBlockOutcome, h, h0, hb]

theorem blocksPerYear_needed (e : Env) (h0 : e.usdcEntry = true) (hb : e.bankSendFails = false) (h1 : e.revenueAddrValid = true)
    (h : e.blocksPerYearNonzero = false) : endBlockOutcome true e = .error .blocksPerYear := by
  simp [endBlockOutcome, h, h0, h1, hb]

/-- WITNESS (before 9e8da3f): a guaranteed environment in which one fee conversion fails — a fee paid in a denom whose best pool
is an oracle pool with a missing price — halted the chain -/
theorem conversion_halt_witness :
    let e : Env := { usdcEntry := true, revenueAddrValid := true, blocksPerYearNonzero := true, conversionFails := true,
                     bankSendFails := false, edenPriceZero := false, mintFails := false }
    endBlockOutcome false e = .error .conversion ∧ endBlockOutcome true e = .ok () := by
  constructor <;> rfl

/-- a user transaction that fails (error or recovered panic) leaves the state exactly as it was -/
theorem tx_isolated {σ : Type} (s : σ) (tx : σ → Except Unit σ) (h : tx s = .error ()) : runTx s tx = s := by
  simp [runTx, h]

/-- non-vacuity -/
example : Guaranteed { usdcEntry := true, revenueAddrValid := true, blocksPerYearNonzero := true, conversionFails := true,
                       bankSendFails := false, edenPriceZero := false, mintFails := false } := by
  simp [Guaranteed]

end Elys.Blocks.C18
