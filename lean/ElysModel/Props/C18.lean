/-
C18 (partial) — no reachable state makes block processing fail. Property theorems only.
The model is the error skeleton of the one end-blocker whose error reaches ABCI. What it CANNOT exhibit: panics from
arithmetic deep inside unmodelled keepers, out-of-gas, IAVL/DB faults, nil-pointer bugs — those are reached only by the
fault-sequence runs on the real application (tests).
-/
import ElysModel.Blocks.Model
namespace Elys.Blocks.C18

/-- the environments validation and the standard wiring guarantee, whatever users and the oracle do -/
def Guaranteed (e : Env) : Prop :=
  e.usdcEntry = true ∧ e.revenueAddrValid = true ∧ e.blocksPerYearNonzero = true ∧ e.bankSendFails = false

/-- with the repaired conversion, masterchef's end-blocker succeeds in every guaranteed environment — in particular
whether or not a fee conversion fails (oracle outage, dust, emptied pools) -/
theorem edenMint_ok (a : Int) : edenMint true a = .ok () := by
  unfold edenMint mintCoins
  simp only [if_true]
  split
  · rename_i h; simp only [show ¬ (a.tdiv P ≤ 0) by omega, if_false]
  · rfl

theorem edenMints_ok (as : List Int) : edenMints true as = .ok () := by
  induction as with
  | nil => rfl
  | cons a as ih => simp only [edenMints, edenMint_ok, ih]

/-- … whatever the pools' Eden allocations of the block are (dust pools, tiny yearly amounts) and whether or not the Eden price
has rounded to zero (a lopsided ELYS pool) -/
theorem ok_under (e : Env) (h : Guaranteed e) : endBlockOutcome true e = .ok () := by
  obtain ⟨h1, h2, h3, h4⟩ := h
  cases hz : e.edenPriceZero <;> simp [endBlockOutcome, h1, h2, h3, h4, hz, edenMints_ok]

/-- WITNESS (before 5353f3f): a guaranteed environment in which the Eden price has rounded to zero — five sales of three reserves
of ELYS each into the ELYS/USDC pool (scenario c18-elys-pool-lopsided) — halted the chain -/
theorem eden_price_halt_witness :
    let e : Env := { usdcEntry := true, revenueAddrValid := true, blocksPerYearNonzero := true, conversionFails := false,
                     bankSendFails := false, edenPriceZero := true, edenAllocs := [] }
    Guaranteed e ∧ endBlockOutcome true e true false = .error .edenPrice ∧ endBlockOutcome true e = .ok () := by
  refine ⟨by simp [Guaranteed], rfl, rfl⟩

/-- before 932554d exactly the allocations strictly between 0 and 1 base unit halted the chain -/
theorem edenMint_old_fails_iff (a : Int) : edenMint false a = .error .mint ↔ 0 < a ∧ a < P := by
  unfold edenMint mintCoins P
  simp only [Bool.false_eq_true, if_false]
  by_cases ha : a > 0
  · have hd : a.tdiv 1000000000000000000 = a / 1000000000000000000 := Int.tdiv_eq_ediv_of_nonneg (by omega)
    simp only [ha, if_true, hd]
    by_cases hw : a / 1000000000000000000 ≤ 0
    · simp only [hw, if_true]
      constructor
      · intro _; exact ⟨trivial, by omega⟩
      · intro _; trivial
    · simp only [hw, if_false]
      constructor
      · intro h; cases h
      · rintro ⟨_, h1⟩; exfalso; omega
  · simp only [ha, if_false]
    constructor
    · intro h; cases h
    · rintro ⟨h0, _⟩; exact h0.elim

/-- WITNESS (before 932554d): a pool with Eden rewards on and an allocation of half a base unit — what is left when liquidity
providers have exited all but dust (scenario c18-eden-rewards-dust-pool) -/
theorem eden_dust_halt_witness :
    let e : Env := { usdcEntry := true, revenueAddrValid := true, blocksPerYearNonzero := true, conversionFails := false,
                     bankSendFails := false, edenPriceZero := false, edenAllocs := [3 * P, P / 2] }
    endBlockOutcome true e false = .error .mint ∧ endBlockOutcome true e true = .ok () := by
  constructor <;> rfl

/-- the epochs begin-blocker survives the estaking hook whatever the provider's vesting claim does (since 7acf6c7) … -/
theorem epoch_start_ok (claim : Except Unit Unit) : epochStart [estakingHook true claim] = .ok () := by
  simp [epochStart, estakingHook]

/-- … WITNESS: before, a failing claim (zero-block schedule, unpayable vesting denom, full vesting list, refused recipient) panicked -/
theorem epoch_start_halt_witness : epochStart [estakingHook false (.error ())] = .error () := by rfl

/-- with the validated portion the protocol's remainder is never negative, for every amount … -/
theorem afterProvider_nonneg (c p : Int) (hc : 0 ≤ c) (hp : portionValid true p = true) : 0 ≤ afterProvider c p := by
  unfold portionValid at hp
  simp only [Bool.not_true, Bool.false_or, Bool.and_eq_true, decide_eq_true_eq] at hp
  obtain ⟨hp0, hp1⟩ := hp
  unfold afterProvider
  have hcp : 0 ≤ c * p := Int.mul_nonneg hc hp0
  have h1 : c * p ≤ c * P := Int.mul_le_mul_of_nonneg_left hp1 hc
  rw [Int.tdiv_eq_ediv_of_nonneg hcp]
  unfold P at *
  generalize c * p = x at *
  omega

/-- … WITNESS: the validation before f5b320c accepted a portion of 2.5, which leaves −1.5 coins of 1 -/
theorem portion_halt_witness : portionValid false (5 * P / 2) = true ∧ portionValid true (5 * P / 2) = false ∧ afterProvider P (5 * P / 2) < 0 := by
  refine ⟨by decide, by decide, by decide⟩

/-- each hypothesis is needed: dropping it halts -/
theorem usdc_needed (e : Env) (h : e.usdcEntry = false) : endBlockOutcome true e = .error .noUsdc := by
  simp [endBlockOutcome, h]

theorem revenueAddr_needed (e : Env) (h0 : e.usdcEntry = true) (hb : e.bankSendFails = false) (h : e.revenueAddrValid = false) :
    endBlockOutcome true e = .error .revenueAddr := by
  simp [endBlockOutcome, h, h0, hb]

theorem blocksPerYear_needed (e : Env) (h0 : e.usdcEntry = true) (hb : e.bankSendFails = false) (h1 : e.revenueAddrValid = true)
    (h : e.blocksPerYearNonzero = false) : endBlockOutcome true e = .error .blocksPerYear := by
  simp [endBlockOutcome, h, h0, h1, hb]

/-- WITNESS (before 9e8da3f): a guaranteed environment in which one fee conversion fails — a fee paid in a denom whose best pool
is an oracle pool with a missing price — halted the chain -/
theorem conversion_halt_witness :
    let e : Env := { usdcEntry := true, revenueAddrValid := true, blocksPerYearNonzero := true, conversionFails := true,
                     bankSendFails := false, edenPriceZero := false, edenAllocs := [] }
    endBlockOutcome false e = .error .conversion ∧ endBlockOutcome true e = .ok () := by
  constructor <;> rfl

/-- the EdenB burn writes the store before the hook that re-initialises the distribution starting info, so over every history of
burns and commits (any amounts) the recorded stake never exceeds the stored one and the end-blocker's withdrawal cannot panic -/
theorem edenB_withdraw_ok (ops : List EdenBOp) :
    withdrawEdenB (ops.foldl (edenBStep true) {}) = .ok (ops.foldl (edenBStep true) {}) := by
  have key : ∀ (s : EdenB), s.started ≤ s.stored → (ops.foldl (edenBStep true) s).started ≤ (ops.foldl (edenBStep true) s).stored := by
    induction ops with
    | nil => intro s h; exact h
    | cons op ops ih =>
      intro s _
      apply ih
      cases op <;> simp [edenBStep, burnEdenB, commitEdenB]
  have := key {} (by decide)
  unfold withdrawEdenB
  split
  · omega
  · rfl

/-- WITNESS (the shape of seeded change C18-3): 100 000 EdenB committed; a first burn of 10 000 whose hook reads the store before it
is written leaves the starting info at 100 000 against 90 000 stored: the next withdrawal halts the chain; with the code's order
it does not. -/
theorem edenB_stale_start_witness :
    withdrawEdenB ([EdenBOp.commit 100000, .burn 10000].foldl (edenBStep false) {}) = .error .stake ∧
    withdrawEdenB ([EdenBOp.commit 100000, .burn 10000].foldl (edenBStep true) {}) = .ok { stored := 90000, started := 90000 } := by
  constructor <;> rfl

/-- a user transaction that fails (error or recovered panic) leaves the state exactly as it was -/
theorem tx_isolated {σ : Type} (s : σ) (tx : σ → Except Unit σ) (h : tx s = .error ()) : runTx s tx = s := by
  simp [runTx, h]

/-- non-vacuity -/
example : Guaranteed { usdcEntry := true, revenueAddrValid := true, blocksPerYearNonzero := true, conversionFails := true,
                       bankSendFails := false, edenPriceZero := false, edenAllocs := [P / 2, 0, 7 * P] } := by
  simp [Guaranteed]

end Elys.Blocks.C18
