/-
C19 (partial) — determinism of the one map-ordered loop, restart safety of the store discipline, and what the fresh-process
replica decides. Property theorems only.
What is NOT modelled: goroutine scheduling, wall-clock reads inside dependencies, the Go runtime itself; those are covered only
by the replica runs (harness/c19.go), which are tests.
-/
import ElysModel.Determinism.Model
import ElysModel.Gen.MapRanges
namespace Elys.Determinism.C19
open FMap

theorem get_burnAll (supply : FMap String) (entries : List (String × Int)) (d : String) :
    (burnAll supply entries).get d = supply.get d - burnedOf d entries := by
  induction entries generalizing supply with
  | nil => simp [burnAll, burnedOf]
  | cons e es ih =>
    have : burnAll supply (e :: es) = burnAll (supply.add e.1 (-e.2)) es := rfl
    rw [this, ih, get_add]
    simp only [burnedOf]
    by_cases hd : e.1 = d
    · subst hd; simp only [if_true]; omega
    · simp only [hd, if_false]; omega

theorem burnedOf_perm (d : String) {l l' : List (String × Int)} (h : l.Perm l') : burnedOf d l = burnedOf d l' := by
  induction h with
  | nil => rfl
  | cons x _ ih => simp [burnedOf, ih]
  | swap x y l => simp [burnedOf]; omega
  | trans _ _ ih1 ih2 => rw [ih1, ih2]

/-- whatever order the runtime yields the map's entries in, every denom's resulting supply is the same
(provided no burn fails — a failing burn panics and halts, which is C18's concern). -/
theorem burner_perm (supply : FMap String) {l l' : List (String × Int)} (h : l.Perm l') (d : String) :
    (burnAll supply l).get d = (burnAll supply l').get d := by
  rw [get_burnAll, get_burnAll, burnedOf_perm d h]

variable {P T M B : Type}

/-- a node restarted after a committed block continues exactly like one that never stopped: the persistent and transient
stores after any further blocks are identical, because blocks never read keeper memory and commit already emptied the
transient store. -/
theorem restart_sim (step : P → T → B → P × T) (t0 : T) (m0 : M) (s : State P T M) (bs : List B) :
    (runBlocks step t0 (restart t0 m0 (commit t0 s)) bs).p = (runBlocks step t0 (commit t0 s) bs).p ∧
    (runBlocks step t0 (restart t0 m0 (commit t0 s)) bs).t = (runBlocks step t0 (commit t0 s) bs).t := by
  have key : ∀ (a b : State P T M), a.p = b.p → a.t = b.t →
      (runBlocks step t0 a bs).p = (runBlocks step t0 b bs).p ∧ (runBlocks step t0 a bs).t = (runBlocks step t0 b bs).t := by
    induction bs with
    | nil => intro a b hp ht; exact ⟨hp, ht⟩
    | cons blk bs ih =>
      intro a b hp ht
      apply ih
      · simp [commit, blockStep, hp, ht]
      · simp [commit]
  exact key _ _ rfl rfl

/-- if no block's result depends on process memory, the node that never stops and the node that runs every block in a fresh
process hold the same stores after every history -/
theorem fresh_process_sim (step : P → T → M → B → (P × T) × M) (hind : MemIndependent step) (t0 : T) (m0 : M)
    (s : State P T M) (bs : List B) :
    (runFresh step t0 m0 s bs).p = (runKeep step t0 s bs).p ∧ (runFresh step t0 m0 s bs).t = (runKeep step t0 s bs).t := by
  have key : ∀ (a b : State P T M), a.p = b.p → a.t = b.t →
      (runFresh step t0 m0 a bs).p = (runKeep step t0 b bs).p ∧ (runFresh step t0 m0 a bs).t = (runKeep step t0 b bs).t := by
    induction bs with
    | nil => intro a b hp ht; exact ⟨hp, ht⟩
    | cons blk bs ih =>
      intro a b hp ht
      apply ih
      · simp only [commit, blockStepM, hp, ht]
        rw [hind b.p b.t m0 b.m blk]
      · simp [commit]
  exact key _ _ rfl rfl

/-- hence the fresh-process replica is a sound detector: two different persistent stores after some history prove that some
block read process memory -/
theorem fresh_process_detects (step : P → T → M → B → (P × T) × M) (t0 : T) (m0 : M) (s : State P T M) (bs : List B)
    (h : (runFresh step t0 m0 s bs).p ≠ (runKeep step t0 s bs).p) : ¬ MemIndependent step :=
  fun hind => h (fresh_process_sim step hind t0 m0 s bs).1

/-- WITNESS (the shape of seeded change C19-1): memory holds a constant `k` (2 at process start); block `true` overwrites it in
place (even when the block's own result is discarded), block `false` adds it to the store. In-process replicas — which share
the memory — agree with each other; the fresh-process replica does not. -/
theorem shared_constant_witness :
    let step : Int → Unit → Int → Bool → (Int × Unit) × Int := fun p _ k b => if b then ((p, ()), k * 7) else ((p + k, ()), k)
    (runKeep step () ⟨0, (), 2⟩ [true, false]).p = 14 ∧ (runFresh step () 2 ⟨0, (), 2⟩ [true, false]).p = 2 ∧ ¬ MemIndependent step := by
  refine ⟨by decide, by decide, ?_⟩
  intro h
  have := h 0 () 2 3 false
  simp at this

/-! ### every range over a Go map in the code (regenerated table `Gen.MapRanges.sites`, harness/cmd/mapranges)
Go randomises the order in which a map is iterated, so every such loop in the state transition must be insensitive to the order. -/

/-- what a loop is, as read by a human once; re-read whenever the regenerated table differs from this one -/
inductive RangeCls
  | wiring        -- app construction / CLI plumbing: builds another map or a set; never runs inside a block
  | membership    -- looks for any matching element and returns a boolean that does not depend on which one is found first
  | commutative   -- runs in block processing; its effect is proved independent of the order (`burner_perm`)
  | queryOnly     -- gRPC query path: reads state, writes nothing, is not part of consensus
deriving Repr, DecidableEq

open Elys.Gen.MapRanges in
def expectedRanges : List (Site × RangeCls) := [
  ({ pkg := "app", file := "app.go", fn := "*ElysApp.ModuleAccountAddrs", expr := "maccPerms", typ := "map[string][]string" }, .wiring),
  ({ pkg := "app", file := "app.go", fn := "GetMaccPerms", expr := "maccPerms", typ := "map[string][]string" }, .wiring),
  ({ pkg := "app", file := "app.go", fn := "*ElysApp.AutoCliOpts", expr := "app.mm.Modules", typ := "map[string]interface{}" }, .wiring),
  ({ pkg := "x/amm/utils", file := "can_create_module_account_at_addr.go", fn := "CanCreateModuleAccountAtAddr", expr := "ExtraAccountTypes", typ := "map[reflect.Type]struct{}" }, .membership),
  ({ pkg := "x/burner/keeper", file := "burn.go", fn := "Keeper.BurnTokensForAllDenoms", expr := "balances", typ := "map[string]github.com/cosmos/cosmos-sdk/types.Coins" }, .commutative),
  ({ pkg := "x/masterchef/keeper", file := "query_pool_rewards.go", fn := "Keeper.generateExternalRewardsApr", expr := "rewardsPerPool", typ := "map[uint64]cosmossdk.io/math.LegacyDec" }, .queryOnly)
]

/-- the regenerated table IS the table that was read: a new range over a map anywhere in x/ or app/ (or one that moved, or whose
ranged expression or type reads differently) breaks this theorem, and with it the check, until it has been read and classified -/
theorem ranges_as_expected : Elys.Gen.MapRanges.sites = expectedRanges.map (·.1) := by decide

/-- the only map-ordered loop that runs in block processing is the burner's, whose result is order-independent (`burner_perm`) -/
theorem only_burner_in_block_processing :
    ((expectedRanges.filter (fun sc => sc.2 == .commutative || sc.2 == .membership)).map (·.1.fn)) =
      ["CanCreateModuleAccountAtAddr", "Keeper.BurnTokensForAllDenoms"] := by decide

/-- non-vacuity: three denoms burned in two different orders -/
example : (burnAll [("uusdc", 1000), ("uatom", 500), ("uelys", 70)] [("uusdc", 100), ("uatom", 50), ("uelys", 7)]).get "uatom" =
          (burnAll [("uusdc", 1000), ("uatom", 500), ("uelys", 70)] [("uelys", 7), ("uusdc", 100), ("uatom", 50)]).get "uatom" := by decide

end Elys.Determinism.C19
