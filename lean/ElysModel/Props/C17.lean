/-
C17 — governance-only messages are refused from everyone but the governance authority; owner-scoped
messages are refused from non-owners. Property theorems only.

`Gen.handlers` is regenerated from the Go source on every `./check C17` (harness/cmd/extract); the first
group of theorems is decided over that table, so a new governance message without a guard, a removed or
displaced guard, a guard that compares a field other than the signer, or a governance message that
appears or disappears without this file being told, all break an obligation.
-/
import ElysModel.Gen.Handlers
namespace Elys.Auth.C17
open Elys.Gen

/-! ### the regenerated table -/

/-- every handler whose message carries an `Authority` field refuses before its first write. -/
theorem all_guarded : ∀ h ∈ handlers, h.hasAuthorityField = true → h.guardedBeforeWrite = true := by
  decide

/-- the governance-gated handlers (an `Authority` field, or any comparison with the keeper's authority):
the guard comes before the first write, and the field it compares is the field the proto file declares
as the transaction signer — so the guard speaks about who signed. -/
theorem guard_compares_signer :
    ∀ h ∈ handlers, h.gated = true → h.guardedBeforeWrite = true ∧ h.authorityFieldName = h.signerField := by
  decide

/-- the hand-written expectation: (module, method) of every handler whose message has an `Authority` field. -/
def expectedAuthority : List (String × String) := [
  ("amm", "UpdateParams"), ("amm", "UpdatePoolParams"),
  ("assetprofile", "DeleteEntry"), ("assetprofile", "UpdateEntry"),
  ("burner", "UpdateParams"),
  ("commitment", "UpdateEnableVestNow"), ("commitment", "UpdateVestingInfo"),
  ("estaking", "UpdateParams"),
  ("leveragelp", "AddPool"), ("leveragelp", "Dewhitelist"), ("leveragelp", "RemovePool"),
  ("leveragelp", "UpdateParams"), ("leveragelp", "Whitelist"),
  ("masterchef", "AddExternalRewardDenom"), ("masterchef", "TogglePoolEdenRewards"),
  ("masterchef", "UpdateParams"), ("masterchef", "UpdatePoolMultipliers"),
  ("oracle", "AddPriceFeeders"), ("oracle", "RemoveAssetInfo"), ("oracle", "RemovePriceFeeders"), ("oracle", "UpdateParams"),
  ("perpetual", "Dewhitelist"), ("perpetual", "UpdateParams"), ("perpetual", "Whitelist"),
  ("stablestake", "UpdateParams"),
  ("tokenomics", "CreateAirdrop"), ("tokenomics", "CreateTimeBasedInflation"), ("tokenomics", "DeleteAirdrop"),
  ("tokenomics", "DeleteTimeBasedInflation"), ("tokenomics", "UpdateAirdrop"), ("tokenomics", "UpdateGenesisInflation"),
  ("tokenomics", "UpdateTimeBasedInflation"),
  ("tradeshield", "UpdateParams")]

/-- governance-gated handlers whose message has no `Authority` field: (module, method, compared field). -/
def expectedOtherGated : List (String × String × String) := [
  ("parameter", "UpdateMaxVotingPower", "Creator"), ("parameter", "UpdateMinCommission", "Creator"),
  ("parameter", "UpdateMinSelfDelegation", "Creator"), ("parameter", "UpdateRewardsDataLifetime", "Creator"),
  ("parameter", "UpdateTotalBlocksPerYear", "Creator")]

/-- the handlers with an authority field are exactly the expected ones (the table is sorted by module, method). -/
theorem expected_inventory :
    (handlers.filter (·.hasAuthorityField)).map Handler.key = expectedAuthority := by
  decide

/-- … and the handlers that compare the keeper's authority with some other field are exactly the expected ones. -/
theorem expected_other_gated :
    (handlers.filter (fun h => !h.hasAuthorityField && h.authorityFieldName != "")).map
      (fun h => (h.module, h.method, h.authorityFieldName)) = expectedOtherGated := by
  decide

/-! ### what a guard does, for every body -/

variable {σ : Type}

/-- a guarded handler, a signer other than the authority, any body: an error, and the state that is kept is the old one. -/
theorem guard_blocks (h : Handler) (hg : h.guardedBeforeWrite = true) (signer authority : String)
    (hne : signer ≠ authority) (body : σ → Except Err σ) (s : σ) :
    runHandler h signer authority body s = .error .invalidSigner ∧
      commit s (runHandler h signer authority body s) = (false, s) := by
  simp [runHandler, hg, hne, commit]

/-- end to end: whoever signs the transaction, unless it is the authority, and whatever address is
written into the message's signer field, delivery fails and the state is kept. -/
theorem deliver_blocks (h : Handler) (hg : h.guardedBeforeWrite = true) (txSigner fieldValue authority : String)
    (hne : txSigner ≠ authority) (body : σ → Except Err σ) (s : σ) :
    isOk (deliver h txSigner fieldValue authority body s) = false ∧
      commit s (deliver h txSigner fieldValue authority body s) = (false, s) := by
  unfold deliver
  by_cases hs : txSigner = fieldValue
  · subst hs
    simp [runHandler, hg, hne, commit, isOk]
  · simp [hs, commit, isOk]

/-- the table and the semantics together: every handler of the current source whose message carries an
`Authority` field refuses every transaction not signed by the authority, whatever its body would do. -/
theorem table_blocks : ∀ h ∈ handlers, h.hasAuthorityField = true →
    ∀ (txSigner fieldValue authority : String), txSigner ≠ authority →
    ∀ (body : σ → Except Err σ) (s : σ),
      commit s (deliver h txSigner fieldValue authority body s) = (false, s) :=
  fun h hm ha txSigner fieldValue authority hne body s =>
    (deliver_blocks h (all_guarded h hm ha) txSigner fieldValue authority hne body s).2

/-- the guard lets the authority through (the refusal is not unconditional). -/
theorem guard_passes (h : Handler) (authority : String) (body : σ → Except Err σ) (s : σ) :
    deliver h authority authority authority body s = body s := by
  unfold deliver runHandler
  by_cases hg : h.guardedBeforeWrite = true <;> simp [hg]

/-- owner-scoped: a transaction not signed by the object's owner fails and the state is kept
(`owner = none`: the lookup keyed by the sender finds nothing). -/
theorem owner_blocks (owner : Option String) (txSigner fieldValue : String) (hne : owner ≠ some txSigner)
    (body : σ → Except Err σ) (s : σ) :
    isOk (deliverOwned owner txSigner fieldValue body s) = false ∧
      commit s (deliverOwned owner txSigner fieldValue body s) = (false, s) := by
  unfold deliverOwned
  by_cases hs : txSigner = fieldValue
  · subst hs
    cases owner with
    | none => simp [runOwned, commit, isOk]
    | some o =>
      have : txSigner ≠ o := fun e => hne (by rw [e])
      simp [runOwned, this, commit, isOk]
  · simp [hs, commit, isOk]

theorem owner_passes (o : String) (body : σ → Except Err σ) (s : σ) :
    deliverOwned (some o) o o body s = body s := by
  simp [deliverOwned, runOwned]

/-! ### non-vacuity -/

/-- a handler of the regenerated table that is really there and really guarded … -/
def sample : Handler :=
  (handlers.find? (fun h => h.module == "masterchef" && h.method == "UpdatePoolMultipliers")).getD default

example : sample ∈ handlers ∧ sample.hasAuthorityField = true ∧ sample.guardedBeforeWrite = true := by decide

/-- … with a body that writes: governance gets it through, anybody else leaves the state as it was. -/
example : commit (0 : Nat) (deliver sample "gov" "gov" "gov" (fun s => .ok (s + 1)) 0) = (true, 1) := by decide
example : commit (0 : Nat) (deliver sample "mallory" "mallory" "gov" (fun s => .ok (s + 1)) 0) = (false, 0) := by decide
example : commit (0 : Nat) (deliver sample "mallory" "gov" "gov" (fun s => .ok (s + 1)) 0) = (false, 0) := by decide
example : commit (0 : Nat) (deliverOwned (some "alice") "bob" "bob" (fun s => .ok (s + 1)) 0) = (false, 0) := by decide
example : commit (0 : Nat) (deliverOwned (some "alice") "alice" "alice" (fun s => .ok (s + 1)) 0) = (true, 1) := by decide

end Elys.Auth.C17
