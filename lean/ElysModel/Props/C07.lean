/-
C07 — vault shares are issued and redeemed at the fair rate, and lending is capped.
Property theorems only; helper lemmas live in ElysModel/Lemmas/Stable.lean.

Everything is on raw `LegacyDec` integers: `P = 10^18`, a rate `r` means `r / P` deposit units per
share, `Dec.ceilInt r = ⌈r / P⌉` is "one share's worth" rounded up.  `S` = share supply,
`TV` = `Params.TotalValue`.  The standing hypotheses are `0 < S`, `0 ≤ TV` and `0 < rate TV S` ("the
vault exists and a share is worth something"); `healthy` shows that the property's own domain
`TV ≥ S > 0` (rate ≥ 1) is inside it, and `bond_keeps_rate_ge_one` that a bond stays inside that domain.

Each inequality is stated in its exact integer form (`…_tight`, no size restriction) and, where the
one-share allowance `⌈r⌉` only holds up to a size, additionally as a `…_partial` theorem whose extra
hypothesis is explained, with a `…_witness` showing what happens beyond it.
-/
import ElysModel.Lemmas.Stable
namespace Elys.Stable.C07
open Elys Elys.Stable

/-! ### the domain -/

/-- the property's domain `TV ≥ S > 0` lies inside the theorems' hypotheses: there the rate is ≥ 1 (raw ≥ P). -/
theorem healthy (tv supply : Int) (hS : 0 < supply) (hTV : supply ≤ tv) : 0 ≤ tv ∧ P ≤ rate tv supply ∧ 0 < rate tv supply := by
  have h := rate_ge_one hS hTV
  have := P_pos
  exact ⟨by omega, h, by omega⟩

/-- a successful bond into a vault with `TV ≥ S > 0` mints at most as many shares as units deposited, so
`TV' ≥ S' > 0` afterwards: bonds never take the vault out of the domain. -/
theorem bond_keeps_rate_ge_one (s s1 : St) (a bal m : Int) (hS : 0 < s.supply) (hTV : s.supply ≤ s.tv)
    (hb : bond s a bal = .ok (s1, m)) : m ≤ a ∧ 0 < s1.supply ∧ s1.supply ≤ s1.tv := by
  obtain ⟨ha, _, hm, hm0, hs1⟩ := bond_ok hb
  have h := shares_le_amount (by omega : 0 ≤ a) (rate_ge_one hS hTV)
  rw [← hm] at h
  subst hs1
  exact ⟨h, by simp only; omega, by simp only; omega⟩

/-! ### shares are issued and redeemed at the (rounded) rate -/

/-- issuing: the shares minted by a successful `Bond a` are `a·P/r` up to half a share plus the two inner
roundings of `Quo`: `|m·r − a·P| ≤ r/2 · (1 + 1/P + 2/P²)`, exactly, for every rate `r > 0`
(no hypothesis on sizes). -/
theorem issue_fair (s s1 : St) (a bal m : Int) (hr : 0 < rate s.tv s.supply)
    (hb : bond s a bal = .ok (s1, m)) :
    2 * (m * rate s.tv s.supply) * P ≤ 2 * a * P * P + (P + 1) * rate s.tv s.supply ∧
    2 * a * P * P * P < 2 * (m * rate s.tv s.supply) * P * P + (P * P + P + 2) * rate s.tv s.supply := by
  obtain ⟨ha, _, hm, _, _⟩ := bond_ok hb
  subst hm
  exact (shares_bounds (by omega) hr).2

/-- redeeming: a successful `Unbond sh` pays `sh·r/P` rounded to the nearest integer (banker's), where `r`
is the rate read BEFORE the shares are burnt: `|p·P − sh·r| ≤ P/2`. -/
theorem redeem_fair (s s1 : St) (sh held p : Int) (hr : 0 ≤ rate s.tv s.supply)
    (hu : unbond s sh held = .ok (s1, p)) :
    2 * (p * P) ≤ 2 * (sh * rate s.tv s.supply) + P ∧ 2 * (sh * rate s.tv s.supply) ≤ 2 * (p * P) + P := by
  obtain ⟨hs, _, hp, _, _, _⟩ := unbond_ok hu
  subst hp
  exact (payout_bounds (Int.mul_nonneg (by omega) hr)).2

/-! ### C07.bond_unbond -/

/-- bond `a`, then immediately unbond exactly the minted shares: the payout exceeds `a` by at most
`1/2 + (r/P)/2·(1 + 1/P + 2/P²) + 2S/P²` — half a unit, half a share's worth, and a term that only
matters above 10^35 shares.  All `TV ≥ S > 0`, all `a` (a successful bond has `a ≥ 1`). -/
theorem bond_unbond_tight (s s1 s2 : St) (a bal held m p : Int)
    (hS : 0 < s.supply) (hTV : 0 ≤ s.tv) (hr : 0 < rate s.tv s.supply)
    (hb : bond s a bal = .ok (s1, m)) (hu : unbond s1 m held = .ok (s2, p)) :
    2 * (P * P * P) * (p - a) ≤ P * P * P + (P * P + P + 2) * rate s.tv s.supply + 4 * s.supply * P := by
  obtain ⟨ha, _, hm, _, hs1⟩ := bond_ok hb
  obtain ⟨_, _, hp, _, _, _⟩ := unbond_ok hu
  subst hs1; subst hm; subst hp
  exact bond_unbond_core hS hTV hr ha

/-- the round trip never returns more than the deposit plus one share's worth (rounded up), plus one unit
per 2.5·10^35 shares of supply.  All `TV ≥ S > 0`, all amounts. -/
theorem bond_unbond (s s1 s2 : St) (a bal held m p : Int)
    (hS : 0 < s.supply) (hTV : 0 ≤ s.tv) (hr : 0 < rate s.tv s.supply)
    (hb : bond s a bal = .ok (s1, m)) (hu : unbond s1 m held = .ok (s2, p)) :
    p ≤ a + Dec.ceilInt (rate s.tv s.supply) + (4 * s.supply) / (P * P) := by
  have h := bond_unbond_tight s s1 s2 a bal held m p hS hTV hr hb hu
  generalize rate s.tv s.supply = r at *
  have hr0 : 0 ≤ r := Int.le_of_lt hr
  simp only [Dec.ceilInt, Int.tdiv_eq_ediv_of_nonneg hr0, Int.tmod_eq_emod_of_nonneg hr0, P] at *
  split <;> omega

/-- below 2.5·10^35 shares the allowance is exactly one share's worth: payout ≤ a + ⌈r⌉. -/
theorem bond_unbond_one_share (s s1 s2 : St) (a bal held m p : Int)
    (hS : 0 < s.supply) (hTV : 0 ≤ s.tv) (hr : 0 < rate s.tv s.supply) (hsmall : 4 * s.supply < P * P)
    (hb : bond s a bal = .ok (s1, m)) (hu : unbond s1 m held = .ok (s2, p)) :
    p ≤ a + Dec.ceilInt (rate s.tv s.supply) := by
  have h := bond_unbond s s1 s2 a bal held m p hS hTV hr hb hu
  have : (4 * s.supply) / (P * P) = 0 := Int.ediv_eq_zero_of_lt (by omega) hsmall
  omega

/-! ### C07.others_unharmed -/

/-- someone else's bond: what `h ≤ S` shares redeem for (`payoutFor h rate`) falls by less than
`1 + (1 + 1/P)·(h/P + (r/P)/2)`: one unit of the two `RoundInt`s, half a share's worth (the banker's
rounding of the minted shares can go up), and `h/P` because the rate itself is only kept to 18 digits.
All sizes. -/
theorem others_unharmed_bond (s s1 : St) (a bal m h : Int)
    (hS : 0 < s.supply) (hTV : 0 ≤ s.tv) (hr : 0 < rate s.tv s.supply) (hh : 0 ≤ h) (hhS : h ≤ s.supply)
    (hb : bond s a bal = .ok (s1, m)) :
    2 * (P * P) * (payoutFor h (rate s.tv s.supply) - payoutFor h (rate s1.tv s1.supply))
      < 2 * (P * P) + (P + 1) * (2 * h + rate s.tv s.supply) := by
  obtain ⟨ha, _, hm, _, hs1⟩ := bond_ok hb
  subst hs1; subst hm
  exact others_bond_core hS hTV hr ha hh hhS

/-- someone else's unbond that leaves `S' > 0` shares: `h ≤ S'` shares redeem for less by under
`3/2 + (S + S')/(2P) + S'/P²`.  `cash ≤ TV` is C06's equation with non-negative debts; it makes the
payout (≤ cash, or the bank refuses) at most `TV`.  All sizes. -/
theorem others_unharmed_unbond (s s1 : St) (sh held p h : Int)
    (hS : 0 < s.supply) (hTV : 0 ≤ s.tv) (hcash : s.cash ≤ s.tv)
    (hh : 0 ≤ h) (hhS : h ≤ s1.supply) (hS1 : 0 < s1.supply)
    (hu : unbond s sh held = .ok (s1, p)) :
    2 * (P * P) * (payoutFor h (rate s.tv s.supply) - payoutFor h (rate s1.tv s1.supply))
      < 3 * (P * P) + P * (s.supply + s1.supply) + 2 * s1.supply := by
  obtain ⟨hs, _, hp, _, hpc, hs1⟩ := unbond_ok hu
  subst hs1; subst hp
  exact others_unbond_core hS hTV hs (by simp only at hS1; omega) (by omega) hh hhS

/-- PARTIAL (hypothesis: at most 2.5·10^17 shares outstanding, `4·S ≤ P`).  Then someone else's bond
costs a holder at most one share's worth, `⌈r⌉`.  Beyond that size the 18-digit rate itself moves what
a large holding redeems for by more (see `others_unharmed_large_witness`). -/
theorem others_unharmed_bond_partial (s s1 : St) (a bal m h : Int)
    (hS : 0 < s.supply) (hTV : 0 ≤ s.tv) (hr : 0 < rate s.tv s.supply) (hh : 0 ≤ h) (hhS : h ≤ s.supply) (hsmall : 4 * s.supply ≤ P)
    (hb : bond s a bal = .ok (s1, m)) :
    payoutFor h (rate s.tv s.supply) - payoutFor h (rate s1.tv s1.supply) ≤ Dec.ceilInt (rate s.tv s.supply) := by
  have ht := others_unharmed_bond s s1 a bal m h hS hTV hr hh hhS hb
  generalize rate s.tv s.supply = r at *
  generalize payoutFor h r - payoutFor h (rate s1.tv s1.supply) = L at *
  have hr0 : 0 ≤ r := Int.le_of_lt hr
  simp only [Dec.ceilInt, Int.tdiv_eq_ediv_of_nonneg hr0, Int.tmod_eq_emod_of_nonneg hr0, P] at *
  split <;> omega

/-- PARTIAL (same hypothesis `4·S ≤ P`): someone else's unbond costs a holder at most one unit (≤ `⌈r⌉`). -/
theorem others_unharmed_unbond_partial (s s1 : St) (sh held p h : Int)
    (hS : 0 < s.supply) (hTV : 0 ≤ s.tv) (hr : 0 < rate s.tv s.supply) (hcash : s.cash ≤ s.tv)
    (hh : 0 ≤ h) (hhS : h ≤ s1.supply) (hS1 : 0 < s1.supply) (hsmall : 4 * s.supply ≤ P)
    (hu : unbond s sh held = .ok (s1, p)) :
    payoutFor h (rate s.tv s.supply) - payoutFor h (rate s1.tv s1.supply) ≤ 1 ∧
    (1 : Int) ≤ Dec.ceilInt (rate s.tv s.supply) := by
  have ht := others_unharmed_unbond s s1 sh held p h hS hTV hcash hh hhS hS1 hu
  obtain ⟨hs, _, _, _, _, hs1⟩ := unbond_ok hu
  have hsup : s1.supply = s.supply - sh := by rw [hs1]
  generalize rate s.tv s.supply = r at *
  generalize payoutFor h r - payoutFor h (rate s1.tv s1.supply) = L at *
  have hr0 : 0 ≤ r := Int.le_of_lt hr
  simp only [Dec.ceilInt, Int.tdiv_eq_ediv_of_nonneg hr0, Int.tmod_eq_emod_of_nonneg hr0, P] at *
  refine ⟨by omega, ?_⟩
  split <;> omega

/-- the vault of `others_unharmed_large_witness`: 10^24 shares, all held by one lender, worth
1.5·10^24 + 1 500 000 units (rate 1.500000000000000002 after rounding). -/
def bigVault : St :=
  { tv := 1500000000000000001500000, supply := 1000000000000000000000000, cash := 1500000000000000001500000,
    borrowed := 0, stacked := 0, paid := 0 }

/-- WITNESS (beyond the size of the `_partial` theorems): somebody else bonds ONE unit (and is minted one
share, 0.667 rounded up); the last digit of the 18-digit rate drops from …002 to …001 and the 10^24
shares redeem for 1 000 000 units less — far more than one share's worth (`⌈r⌉ = 2`), though only 10^-18
of the holding. -/
theorem others_unharmed_large_witness :
    (bond bigVault 1 1).toOption.map (fun x => (x.2, rate x.1.tv x.1.supply)) = some (1, 1500000000000000001) ∧
    rate bigVault.tv bigVault.supply = 1500000000000000002 ∧
    payoutFor bigVault.supply 1500000000000000002 - payoutFor bigVault.supply 1500000000000000001 = 1000000 ∧
    Dec.ceilInt 1500000000000000002 = 2 := by decide

/-! ### C07.rate_mono — the rate can fall, by a bounded amount -/

/-- WITNESS: rate 1.5 (TV 3, 2 shares); a bond of 1 is minted round(0.667) = 1 share; the rate falls to
1.333….  "The redemption rate never falls" is false. -/
theorem rate_falls_witness :
    rate 3 2 = 1500000000000000000 ∧
    (bond { tv := 3, supply := 2, cash := 3, borrowed := 0, stacked := 0, paid := 0 } 1 1).toOption.map
      (fun x => (x.2, x.1.tv, x.1.supply, rate x.1.tv x.1.supply)) = some (1, 4, 3, 1333333333333333333) := by decide

/-- PARTIAL ("never falls" is false, this is the bound that holds): one bond lowers the rate by less than
`(1 + 1/P)·(1 + r/(2·S'))` raw units, `S'` the supply after it — i.e. `rate × supply` falls by less than
half a share's worth plus one raw unit per share.  All `TV ≥ S > 0`. -/
theorem rate_mono_partial (s s1 : St) (a bal m : Int) (hS : 0 < s.supply) (hTV : 0 ≤ s.tv) (hr : 0 < rate s.tv s.supply)
    (hb : bond s a bal = .ok (s1, m)) :
    2 * P * ((rate s.tv s.supply - rate s1.tv s1.supply) * s1.supply)
      < (P + 1) * (2 * s1.supply + rate s.tv s.supply) := by
  obtain ⟨ha, _, hm, _, hs1⟩ := bond_ok hb
  subst hs1; subst hm
  exact rate_fall_bond hS hTV hr ha

/-- PARTIAL (as above), for an unbond that leaves `S' > 0` shares: the rate falls by less than
`(S + P + S')/(2·S') + 1/P` raw units — the payout's half unit of rounding, spread over the remaining
shares, plus the rate's own last digit. -/
theorem rate_mono_partial_unbond (s s1 : St) (sh held p : Int) (hS : 0 < s.supply) (hTV : 0 ≤ s.tv)
    (hcash : s.cash ≤ s.tv) (hS1 : 0 < s1.supply) (hu : unbond s sh held = .ok (s1, p)) :
    2 * P * ((rate s.tv s.supply - rate s1.tv s1.supply) * s1.supply)
      < P * (s.supply + P + s1.supply) + 2 * s1.supply := by
  obtain ⟨hs, _, hp, _, hpc, hs1⟩ := unbond_ok hu
  subst hs1; subst hp
  exact rate_fall_unbond hS hTV hs (by simp only at hS1; omega) (by omega)

/-! ### C07.cap -/

/-- an accepted `Borrow` satisfies the code's test `10·(TV − cash + amt) ≤ 9·TV` on the values before the
call (outstanding loans incl. unpaid interest + the new loan ≤ 90 % of the vault's value; the `LegacyDec`
comparison is exact); afterwards `TV' = TV + i`, `cash' = cash − amt`, so outstanding ≤ 0.9·TV' up to the
interest `i` this very call accrued (exactly ≤ 0.9·TV' when `i = 0`). -/
theorem cap (s s' : St) (amt i : Int) (hb : borrow s amt i = .ok s') :
    10 * (s.tv - s.cash + amt) ≤ 9 * s.tv ∧
    s'.tv = s.tv + i ∧ s'.cash = s.cash - amt ∧
    10 * (s'.tv - s'.cash) ≤ 9 * s'.tv + i := by
  obtain ⟨hc, _, _, hs'⟩ := borrow_ok hb
  rw [cap_iff] at hc
  subst hs'
  refine ⟨by omega, rfl, rfl, ?_⟩
  simp only; omega

/-- a `Borrow` that would push outstanding loans above 90 % of `TotalValue` is refused, whatever else holds. -/
theorem cap_refused (s : St) (amt i : Int) (h : 10 * (s.tv - s.cash + amt) > 9 * s.tv) :
    borrow s amt i = .error .maxBorrow := by
  have := (cap_iff s amt).mpr h
  simp [borrow, this]

/-- and the cap is the only reason to refuse a positive amount the vault can pay. -/
theorem cap_accepts (s : St) (amt i : Int) (h : 10 * (s.tv - s.cash + amt) ≤ 9 * s.tv) (ha : 1 ≤ amt) (hc : amt ≤ s.cash) :
    ∃ s', borrow s amt i = .ok s' := by
  have h1 : ¬ (borrowedAfter s amt > maxAllowed s) := by rw [cap_iff]; omega
  have h2 : ¬ amt ≤ 0 := by omega
  have h3 : ¬ s.cash < amt := by omega
  refine ⟨{ s with stacked := s.stacked + i, tv := s.tv + i, borrowed := s.borrowed + amt, cash := s.cash - amt }, ?_⟩
  simp [borrow, accrue, h1, h2, h3]

/-- the cap survives any run of the model in the sense that every accepted borrow in it passed the test:
stated per step — `step` only changes the state through the five operations, and a refused one changes nothing. -/
theorem step_refused_unchanged (s : St) (amt i : Int) (h : 10 * (s.tv - s.cash + amt) > 9 * s.tv) :
    step s (.borrow amt i) = s := by
  simp [step, cap_refused s amt i h]

/-! ### non-vacuity: concrete states meet the hypotheses and both operations succeed -/

/-- rate 1.987654321987654321 on 10^18 shares: bond 3 is minted round(1.509) = 2 shares, which redeem for
round(3.975) = 4 = 3 + 1 ≤ 3 + ⌈r⌉ = 5; all hypotheses of `bond_unbond` hold and both calls succeed. -/
example :
    let s : St := { tv := 1987654321987654321, supply := 1000000000000000000, cash := 1987654321987654321,
                    borrowed := 0, stacked := 0, paid := 0 }
    0 < s.supply ∧ s.supply ≤ s.tv ∧ s.cash ≤ s.tv ∧ rate s.tv s.supply = 1987654321987654321 ∧
    (bond s 3 10).toOption.map (·.2) = some 2 ∧
    ((bond s 3 10).toOption.bind fun x => (unbond x.1 x.2 x.2).toOption.map (·.2)) = some 4 ∧
    ((bond s 1000003 2000000).toOption.bind fun x => (unbond x.1 x.2 x.2).toOption.map (·.2)) = some 1000003 := by decide

/-- what a borrower does never lowers the vault's stated value nor touches the share supply, PROVIDED the interest booked inside the
call is not negative: the stated value moves by deposits, redemptions and interest only (the clause the history check C07H
evaluates on every real block) -/
theorem borrower_ops_keep_value (s s' : St) (amt i bal : Int) (hi : 0 ≤ i) :
    (borrow s amt i = .ok s' → s.tv ≤ s'.tv ∧ s'.supply = s.supply) ∧
    (repay s amt i bal = .ok s' → s.tv ≤ s'.tv ∧ s'.supply = s.supply) ∧
    s.tv ≤ (accrue s i).tv ∧ (accrue s i).supply = s.supply := by
  refine ⟨fun h => ?_, fun h => ?_, by simp only [accrue]; omega, rfl⟩
  · unfold borrow at h
    split at h; · simp at h
    simp only at h
    split at h; · simp at h
    split at h; · simp at h
    simp only [Except.ok.injEq] at h; subst h
    exact ⟨by simp [accrue]; omega, by simp [accrue]⟩
  · unfold repay at h
    simp only at h
    repeat' (split at h)
    all_goals first
      | (simp at h; done)
      | (simp only [Except.ok.injEq] at h; subst h; exact ⟨by simp [accrue]; omega, by simp [accrue]⟩)

/-- WITNESS (the shape of seeded change C07-5): interest computed as the difference of two RAW rates is negative once the rate
model lowered the rate: booking −2740 on a vault of 10⁹ at rate 1 takes the rate below 1 for every lender. -/
theorem negative_interest_witness :
    let s : St := { tv := 1000000000, supply := 1000000000, cash := 900000000, borrowed := 100000000, stacked := 0, paid := 0 }
    (accrue s (-2740)).tv = 999997260 ∧ rate (accrue s (-2740)).tv (accrue s (-2740)).supply < rate s.tv s.supply := by decide

/-- a tie: rate exactly 1.5, bond 3 → 2 shares exactly; bond 2 → 1.333 → 1 share; bond 1 → 0.667 → 1 share. -/
example : sharesFor 3 (rate 3 2) = 2 ∧ sharesFor 2 (rate 3 2) = 1 ∧ sharesFor 1 (rate 3 2) = 1 ∧
    payoutFor 1 (rate 3 2) = 2 ∧ payoutFor 3 (rate 3 2) = 4 := by decide

/-- the cap at work: TV 1000, cash 1000: 900 is lent, 901 is refused; then 1 more is refused. -/
example :
    let s : St := { tv := 1000, supply := 1000, cash := 1000, borrowed := 0, stacked := 0, paid := 0 }
    (borrow s 900 0).toOption.map (fun x => (x.cash, x.borrowed)) = some (100, 900) ∧
    (borrow s 901 0).toOption = none ∧
    ((borrow s 900 0).toOption.bind fun x => (borrow x 1 0).toOption) = none := by decide

end Elys.Stable.C07
