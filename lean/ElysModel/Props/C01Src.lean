/-
C01 — source tie (see Props/C03Src.lean for what that is): the two helpers through which x/perpetual moves coins into and out of an
amm pool, x/perpetual/keeper/keeper.go `SendToAmmPool` / `SendFromAmmPool`, translated whole with their effects: the bank transfer and
the call that books it (`AddToPoolBalanceAndUpdateLiquidity` / `RemoveFromPoolBalanceAndUpdateLiquidity`, appended to the trace as
(callee, pool, amount)).  What is booked is exactly what was transferred, for every amount — the drift C01 forbids cannot start here.
Property theorems only.
-/
import ElysModel.Gen.Arith.sendToAmmPool
import ElysModel.Gen.Arith.sendFromAmmPool
import ElysModel.Gen.Arith.Table
namespace Elys.AmmLedger.C01Src
open Elys Elys.Amm

/-- into the pool: one transfer from the sender to the pool's address, one booking on that same pool, of the same amount. -/
theorem gen_send_to_pool_books_what_it_sends (coins : Int) (tr : List (String × String × Int))
    (h : Gen.Arith.sendToAmmPool coins false false = .ok tr) :
    tr = [("#2", "sdk.AccAddressFromBech32(#3.Address)", coins), ("#0.amm.AddToPoolBalanceAndUpdateLiquidity", "#3", coins)] := by
  unfold Gen.Arith.sendToAmmPool at h
  simp [pure, Except.pure] at h
  exact h.symm

/-- out of the pool: one transfer from the pool's address to the receiver, one un-booking on that same pool, of the same amount. -/
theorem gen_send_from_pool_books_what_it_sends (coins : Int) (tr : List (String × String × Int))
    (h : Gen.Arith.sendFromAmmPool coins false false = .ok tr) :
    tr = [("sdk.AccAddressFromBech32(#2.Address)", "#3", coins), ("#0.amm.RemoveFromPoolBalanceAndUpdateLiquidity", "#2", coins)] := by
  unfold Gen.Arith.sendFromAmmPool at h
  simp [pure, Except.pure] at h
  exact h.symm

/-- when the booking is refused the helper returns the error (its caller's transaction, or cache context, is rolled back with the
transfer): no path returns normally with the transfer made and the booking missing. -/
theorem gen_booking_refused_is_an_error (coins : Int) (a : Bool) :
    (∃ e, Gen.Arith.sendToAmmPool coins a true = .error e) ∧ (∃ e, Gen.Arith.sendFromAmmPool coins a true = .error e) := by
  unfold Gen.Arith.sendToAmmPool Gen.Arith.sendFromAmmPool
  cases a <;> simp

end Elys.AmmLedger.C01Src
