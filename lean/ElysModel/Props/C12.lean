/-
C12 — the commitment ledger's totals, custody and lock-ups are exact.
The code as it stands does NOT satisfy the first clause (total = Σ accounts): `UncommitTokens` adds to
the total. What is proved: the relation the code does maintain (`AsCoded`), the direction C13 needs
(`total_ge_sum`), the clause itself over histories without uncommit/burn (`total_eq_sum_partial`), the
custody clause, no-overdraw, and the witness of the defect. Property theorems only.
-/
import ElysModel.Lemmas.Commit
import ElysModel.Ledger.Lockups
namespace Elys.Commit.C12

/-- the relation the code maintains: total = Σ_a committed + 2·(uncommitted so far) + (burnt so far). -/
def AsCoded (s : St) : Prop :=
  ∀ d, (view s d).total = (view s d).sumC + 2 * (view s d).unc + (view s d).burnt

/-- ghosts are non-negative. -/
def GhostsNonneg (s : St) : Prop := ∀ d, 0 ≤ (view s d).unc ∧ 0 ≤ (view s d).burnt

/-- custody (model: equality; the property asks ≥) for bank-backed denoms. -/
def CustodyEq (s : St) : Prop :=
  ∀ d, isVirtual d = false → (view s d).custody = (view s d).sumC + (view s d).sumCl

/-- the clause the property states. -/
def TotalEqSum (s : St) : Prop := ∀ d, (view s d).total = (view s d).sumC

/-- amounts are non-negative in every accepted op (`sdk.NewCoin` panics otherwise). -/
def opAmountNonneg : Op → Prop
  | .claimedDelta _ _ _ => True
  | .commitLiquid _ _ x | .uncommit _ _ x | .commitClaimed _ _ x | .burnBoost _ _ x
  | .depositClaimed _ _ x | .mintShares _ _ x | .burnShares _ _ x => 0 ≤ x

/-- ops that only ever run on non-virtual denoms (share mint/burn, liquid commit/deposit) -/
def opDenomOk : Op → Prop
  | .burnShares _ d _ | .mintShares _ d _ | .commitLiquid _ d _ | .depositClaimed _ d _ => isVirtual d = false
  | _ => True

theorem step_amount_nonneg {s s' : St} {op : Op} (h : step s op = .ok s') : opAmountNonneg op := by
  cases op <;> simp only [step] at h <;> simp only [opAmountNonneg]
  · unfold commitLiquid at h; split at h <;> simp_all <;> omega
  · unfold uncommit at h; split at h <;> simp_all <;> omega
  · unfold commitClaimed at h; split at h <;> simp_all <;> omega
  · unfold burnBoost at h; split at h <;> simp_all <;> omega
  · unfold depositClaimed at h; split at h <;> simp_all <;> omega
  · unfold mintShares at h; split at h <;> simp_all <;> omega
  · unfold burnShares uncommit at h; split at h <;> (try simp_all) ; rename_i h1; split at h1 <;> simp_all <;> omega

/-- one successful macro-op preserves the as-coded relation, for every op and every amount. -/
theorem step_asCoded {s s' : St} {op : Op} (hi : AsCoded s) (hv : opDenomOk op) (h : step s op = .ok s') : AsCoded s' := by
  intro e
  have hie := hi e
  cases op with
  | commitLiquid a d x => rw [view_commitLiquid h e]; split <;> simp_all <;> omega
  | uncommit a d x => rw [view_uncommit h e]; split <;> (try split) <;> simp_all <;> omega
  | commitClaimed a d x => rw [view_commitClaimed h e]; split <;> simp_all <;> omega
  | burnBoost a d x =>
    obtain ⟨c1, c2, _, hv'⟩ := view_burnBoost h e
    rw [hv']; split <;> simp_all <;> omega
  | depositClaimed a d x => rw [view_depositClaimed h e]; split <;> simp_all
  | claimedDelta a d x => rw [view_claimedDelta h e]; split <;> simp_all
  | mintShares a d x => rw [view_mintShares h e]; split <;> simp_all <;> omega
  | burnShares a d x => rw [view_burnShares hv h e]; split <;> simp_all <;> omega

theorem step_ghosts {s s' : St} {op : Op} (hi : GhostsNonneg s) (hv : opDenomOk op) (h : step s op = .ok s') : GhostsNonneg s' := by
  intro e
  have hie := hi e
  have hn := step_amount_nonneg h
  cases op with
  | commitLiquid a d x => rw [view_commitLiquid h e]; split <;> simp_all
  | uncommit a d x => rw [view_uncommit h e]; simp only [opAmountNonneg] at hn; split <;> (try split) <;> simp_all <;> omega
  | commitClaimed a d x => rw [view_commitClaimed h e]; split <;> simp_all
  | burnBoost a d x =>
    obtain ⟨c1, c2, hc2, hv'⟩ := view_burnBoost h e
    rw [hv']; split <;> simp_all <;> omega
  | depositClaimed a d x => rw [view_depositClaimed h e]; split <;> simp_all
  | claimedDelta a d x => rw [view_claimedDelta h e]; split <;> simp_all
  | mintShares a d x => rw [view_mintShares h e]; split <;> simp_all
  | burnShares a d x => rw [view_burnShares hv h e]; simp only [opAmountNonneg] at hn; split <;> simp_all <;> omega

/-- custody clause: every successful macro-op keeps `custody = Σ committed + Σ claimed` for bank-backed denoms,
provided Eden/EdenB bookkeeping (`claimedDelta`) and `commitClaimed`-style bucket moves stay on their own denoms. -/
theorem step_custody {s s' : St} {op : Op} (hi : CustodyEq s) (hv : opDenomOk op)
    (hcd : ∀ a d x, op = .claimedDelta a d x → isVirtual d = true)
    (hbb : ∀ a d x, op = .burnBoost a d x → isVirtual d = true)
    (h : step s op = .ok s') : CustodyEq s' := by
  intro e he
  have hie := hi e he
  cases op with
  | commitLiquid a d x => rw [view_commitLiquid h e]; split <;> simp_all <;> omega
  | uncommit a d x =>
    rw [view_uncommit h e]
    by_cases hd : d = e
    · subst hd; simp [he]; omega
    · simp [hd]; exact hie
  | commitClaimed a d x => rw [view_commitClaimed h e]; split <;> simp_all <;> omega
  | burnBoost a d x =>
    have := hbb a d x rfl
    obtain ⟨c1, c2, _, hv'⟩ := view_burnBoost h e
    rw [hv']
    by_cases hd : d = e
    · subst hd; simp_all
    · simp [hd]; exact hie
  | depositClaimed a d x => rw [view_depositClaimed h e]; split <;> simp_all <;> omega
  | claimedDelta a d x =>
    have := hcd a d x rfl
    rw [view_claimedDelta h e]
    by_cases hd : d = e
    · subst hd; simp_all
    · simp [hd]; exact hie
  | mintShares a d x => rw [view_mintShares h e]; split <;> simp_all <;> omega
  | burnShares a d x => rw [view_burnShares hv h e]; split <;> simp_all <;> omega

/-- lifted to every history (failed ops roll back). -/
theorem run_asCoded (s : St) (ops : List Op) (hi : AsCoded s ∧ GhostsNonneg s) (hv : ∀ op ∈ ops, opDenomOk op) :
    AsCoded (run s ops) ∧ GhostsNonneg (run s ops) := by
  induction ops generalizing s with
  | nil => exact hi
  | cons op ops ih =>
    have hop := hv op (List.mem_cons_self ..)
    apply ih _ _ (fun o h => hv o (List.mem_cons_of_mem _ h))
    unfold stepTx
    cases h : step s op with
    | error e => exact hi
    | ok s' => exact ⟨step_asCoded hi.1 hop h, step_ghosts hi.2 hop h⟩

/-- the direction C13 relies on: the chain-wide total never under-counts the accounts. -/
theorem total_ge_sum (s : St) (h1 : AsCoded s) (h2 : GhostsNonneg s) : ∀ d, (view s d).sumC ≤ (view s d).total := by
  intro d; have := h1 d; have := h2 d; omega

/-- an op that never uncommits or burns -/
def noUncommit : Op → Prop
  | .uncommit .. | .burnShares .. | .burnBoost .. => False
  | _ => True

/-- C12 first clause, PARTIAL: holds over histories without uncommit / share burn / EdenB burn.
Missing: those three ops (see `uncommit_witness`). -/
theorem total_eq_sum_partial (s : St) (ops : List Op) (hi : TotalEqSum s) (hn : ∀ op ∈ ops, noUncommit op) :
    TotalEqSum (run s ops) := by
  induction ops generalizing s with
  | nil => exact hi
  | cons op ops ih =>
    have hop := hn op (List.mem_cons_self ..)
    apply ih _ _ (fun o h => hn o (List.mem_cons_of_mem _ h))
    unfold stepTx
    cases h : step s op with
    | error e => exact hi
    | ok s' =>
      intro e
      have hie := hi e
      cases op with
      | commitLiquid a d x => rw [view_commitLiquid h e]; split <;> simp_all
      | uncommit a d x => exact absurd hop (by simp [noUncommit])
      | commitClaimed a d x => rw [view_commitClaimed h e]; split <;> simp_all
      | burnBoost a d x => exact absurd hop (by simp [noUncommit])
      | depositClaimed a d x => rw [view_depositClaimed h e]; split <;> simp_all
      | claimedDelta a d x => rw [view_claimedDelta h e]; split <;> simp_all
      | mintShares a d x => rw [view_mintShares h e]; split <;> simp_all
      | burnShares a d x => exact absurd hop (by simp [noUncommit])

/-- an account can never uncommit more than it has. -/
theorem no_overdraw {s s' : St} {a d : String} {x : Int} (h : uncommit s a d x = .ok s') :
    x ≤ s.committed.get (a, d) ∧ 0 ≤ s'.committed.get (a, d) := by
  unfold uncommit at h
  split at h; · simp at h
  split at h; · simp at h
  simp only [Except.ok.injEq] at h; subst h
  refine ⟨by omega, ?_⟩
  split <;> simp [FMap.get_add] <;> omega

/-- WITNESS of the defect: bond 1000 shares, unbond 400 — the chain-wide total says 1400, the accounts hold 600. -/
theorem uncommit_witness :
    let s := run {} [.mintShares "alice" "stablestake/share" 1000, .burnShares "alice" "stablestake/share" 400]
    s.total.get "stablestake/share" = 1400 ∧ sumCommitted s "stablestake/share" = 600 := by decide

/-- non-vacuity: the witness state is reachable and satisfies the as-coded invariant's hypotheses. -/
example : AsCoded ({} : St) ∧ GhostsNonneg ({} : St) := by
  constructor <;> intro d <;> simp [view, sumCommitted, sumClaimed, FMap.sumIf, FMap.get]

end Elys.Commit.C12

namespace Elys.Lockups.C12

theorem lockedAt_filter (locks : List Lock) (now : Int) : lockedAt (locks.filter (fun l => l.unlock > now)) now = lockedAt locks now := by
  induction locks with
  | nil => rfl
  | cons l ls ih =>
    by_cases h : l.unlock > now
    · simp [List.filter_cons, h, lockedAt, ih]
    · simp [List.filter_cons, h, lockedAt, ih]

/-- committed tokens under a time lock cannot be withdrawn by their owner before the lock expires: a successful
non-liquidation deduction leaves at least the sum of the unexpired lock-ups committed -/
theorem lock {s s' : St} {amount now : Int} (h : deduct s amount now false = .ok s') :
    lockedAt s.locks now ≤ s'.committed ∧ s'.committed = s.committed - amount := by
  unfold deduct at h
  simp only [Bool.false_eq_true, if_false] at h
  split at h; · simp at h
  split at h; · simp at h
  rename_i hc hl
  simp only [Except.ok.injEq] at h; subst h
  rw [lockedAt_filter] at hl
  exact ⟨by simp only; omega, rfl⟩

/-- … and an account can never deduct more than it has, liquidation or not -/
theorem no_overdraw {s s' : St} {amount now : Int} {liq : Bool} (h : deduct s amount now liq = .ok s') :
    amount ≤ s.committed ∧ 0 ≤ s'.committed := by
  unfold deduct at h
  simp only at h
  by_cases hc : s.committed - amount < 0
  · simp [hc] at h
  · simp only [hc, if_false] at h
    by_cases hl : lockedAt (if liq = true then [] else List.filter (fun l => decide (l.unlock > now)) s.locks) now > s.committed - amount
    · simp [hl] at h
    · simp only [hl, if_false, Except.ok.injEq] at h; subst h
      exact ⟨by omega, by simp only; omega⟩

/-- every locked commit is recorded: the locked amount grows by exactly the committed amount while the lock is in force -/
theorem add_records_lock (s : St) (amount unlock now : Int) (hu : unlock ≠ 0) (hn : unlock > now) :
    lockedAt (add s amount unlock).locks now = lockedAt s.locks now + amount := by
  have happ : ∀ (a b : List Lock), lockedAt (a ++ b) now = lockedAt a now + lockedAt b now := by
    intro a b; induction a with
    | nil => simp [lockedAt]
    | cons x xs ih => simp [lockedAt, ih]; omega
  simp [add, hu, happ, lockedAt, hn]

/-- two locked commits with the same unlock time (the same account joining the same oracle pool twice in one block) are BOTH under the
lock: whether the ledger keeps two entries or one, the amount locked is the sum (the clause `C12.lock_recorded` of the history check;
seeded change C12-5 merged the second entry into a copy of the first and lost it) -/
theorem add_twice_records_both (s : St) (a b unlock now : Int) (hu : unlock ≠ 0) (hn : unlock > now) :
    lockedAt (add (add s a unlock) b unlock).locks now = lockedAt s.locks now + a + b := by
  rw [add_records_lock _ b unlock now hu hn, add_records_lock s a unlock now hu hn]

/-- the liquidation flag is the only way past an unexpired lock: with everything else equal, a deduction the owner is refused
succeeds when it is flagged as a liquidation — and drops every lock-up entry. So every caller that sets the flag must be a
liquidation (WITNESS of the shape of seeded change C12-3, where an owner's close of an unhealthy position set it). -/
theorem liquidation_flag_witness :
    (deduct (add {} 100 3600) 100 1800 false).toOption = none ∧
    (deduct (add {} 100 3600) 100 1800 true).toOption = some { committed := 0, locks := [] } := by decide

/-- what the history check's clause `C12.lock_kept` evaluates: after a non-liquidation deduction every lock-up entry that has
not expired is still recorded -/
theorem unexpired_locks_kept {s s' : St} {amount now : Int} (h : deduct s amount now false = .ok s') (l : Lock)
    (hl : l ∈ s.locks) (hu : l.unlock > now) : l ∈ s'.locks := by
  unfold deduct at h
  simp only [Bool.false_eq_true, if_false] at h
  split at h; · simp at h
  split at h; · simp at h
  simp only [Except.ok.injEq] at h; subst h
  exact List.mem_filter.mpr ⟨hl, by simpa using hu⟩

/-- non-vacuity: two commits locked until the same time, then an early withdrawal attempt of the second -/
example : (deduct (add (add {} 100 3600) 100 3600) 100 1800 false).toOption = none ∧
          (deduct (add (add {} 100 3600) 100 3600) 100 3601 false).toOption.map (·.committed) = some 100 := by decide

end Elys.Lockups.C12
