/-
C20 — source tie (see Props/C03Src.lean for what that is): the guards in front of the execution of a pending order,
x/tradeshield/keeper/pending_spot_order.go `ExecuteStopLossOrder` / `ExecuteLimitSellOrder` / `ExecuteLimitBuyOrder` and
pending_perpetual_order.go `ExecuteLimitOpenOrder` — the longest prefix of each function the translator understands, i.e. everything
before the escrow is handed back to the owner.  `true` = the order is executed, `false` = skipped (left pending, untouched).
The model's `triggered` (on which `C20.trigger` is stated) is what the source says now, for every market price and every order rate.
Property theorems only.
-/
import ElysModel.Gen.Arith.execStopLossGuards
import ElysModel.Gen.Arith.execLimitSellGuards
import ElysModel.Gen.Arith.execLimitBuyGuards
import ElysModel.Gen.Arith.execLimitOpenGuards
import ElysModel.Gen.Arith.cancelSpotGuards
import ElysModel.Gen.Arith.updateSpotGuards
import ElysModel.Gen.Arith.cancelPerpGuards
import ElysModel.Gen.Arith.updatePerpGuards
import ElysModel.Gen.Arith.cancelSpotBatchBody
import ElysModel.Gen.Arith.cancelPerpBatchBody
import ElysModel.Gen.Arith.Table
import ElysModel.Ledger.Orders
namespace Elys.Orders.C20Src
open Elys Elys.Amm Elys.Orders

/-- spot orders: whenever the guards return, they return the model's `triggered`. -/
theorem gen_spot_triggers (market rate : Int) (b : Bool) :
    (Gen.Arith.execStopLossGuards market false rate = .ok b → b = triggered .stopLoss market rate) ∧
    (Gen.Arith.execLimitSellGuards market false rate = .ok b → b = triggered .limitSell market rate) ∧
    (Gen.Arith.execLimitBuyGuards market false rate = .ok b → b = triggered .limitBuy market rate) := by
  unfold Gen.Arith.execStopLossGuards Gen.Arith.execLimitSellGuards Gen.Arith.execLimitBuyGuards triggered
  refine ⟨?_, ?_, ?_⟩ <;> intro h <;> by_cases h0 : market = 0 <;> simp [h0] at h
  · by_cases h1 : market > rate <;> simp [h1, pure, Except.pure] at h <;> simp [h1, ← h]
  · by_cases h1 : market < rate <;> simp [h1, pure, Except.pure] at h <;> simp [h1, ← h]
  · by_cases h1 : market > rate <;> simp [h1, pure, Except.pure] at h <;> simp [h1, ← h]

/-- perpetual limit-open orders (position 1 = LONG, 2 = SHORT). -/
theorem gen_perp_triggers (market rate : Int) (b : Bool) :
    (Gen.Arith.execLimitOpenGuards market false 1 rate = .ok b → b = triggered .perpLong market rate) ∧
    (Gen.Arith.execLimitOpenGuards market false 2 rate = .ok b → b = triggered .perpShort market rate) := by
  unfold Gen.Arith.execLimitOpenGuards triggered
  refine ⟨?_, ?_⟩ <;> intro h
  · by_cases h1 : market > rate <;> simp [h1, pure, Except.pure] at h <;> simp [h1, ← h]
  · by_cases h1 : market < rate <;> simp [h1, pure, Except.pure] at h <;> simp [h1, ← h]

/-- without a market price nothing is executed. -/
theorem gen_no_price_no_execution (market rate pos : Int) :
    Gen.Arith.execStopLossGuards market true rate ≠ .ok true ∧ Gen.Arith.execLimitSellGuards market true rate ≠ .ok true ∧
    Gen.Arith.execLimitBuyGuards market true rate ≠ .ok true ∧ Gen.Arith.execLimitOpenGuards market true pos rate ≠ .ok true ∧
    Gen.Arith.execStopLossGuards 0 false rate ≠ .ok true := by
  unfold Gen.Arith.execStopLossGuards Gen.Arith.execLimitSellGuards Gen.Arith.execLimitBuyGuards Gen.Arith.execLimitOpenGuards
  refine ⟨?_, ?_, ?_, ?_, ?_⟩ <;> simp

/-- what the guards read: the market price of the order's pair and the order's own rate (and side) — not the sender. -/
theorem gen_free_exec_guards :
    Gen.Arith.freeOf "execStopLossGuards" = ["#0.GetAssetPriceFromDenomInToDenomOut(#1, #2.OrderPrice.BaseDenom, #2.OrderPrice.QuoteDenom)",
      "#0.GetAssetPriceFromDenomInToDenomOut(#1, #2.OrderPrice.BaseDenom, #2.OrderPrice.QuoteDenom)#err", "#2.OrderPrice.Rate"] ∧
    Gen.Arith.freeOf "execLimitOpenGuards" = ["#0.perpetual.GetAssetPrice(#1, #2.TradingAsset)", "#0.perpetual.GetAssetPrice(#1, #2.TradingAsset)#err",
      "#2.Position", "#2.TriggerPrice.Rate"] := by decide

/-- owner control, as the source has it now (x/tradeshield/keeper/msg_server_spot_order.go, msg_server_perpetual_order.go): the
guards in front of a cancel or an update of a pending order let a message through only when the order exists and the message's
owner address does not differ from the stored owner — for the four single-order messages. (`differs` is the free Boolean the
table below pins to `msg.OwnerAddress != order.OwnerAddress`.) -/
theorem gen_owner_only (found differs : Bool) (bal : Int) (tp rate pos mnL mxL mxS : Int) :
    (Gen.Arith.cancelSpotGuards found differs bal = .ok true → found = true ∧ differs = false) ∧
    (Gen.Arith.updateSpotGuards found differs = .ok true → found = true ∧ differs = false) ∧
    (Gen.Arith.cancelPerpGuards found differs = .ok true → found = true ∧ differs = false) ∧
    (Gen.Arith.updatePerpGuards found differs tp rate pos mnL mxL mxS = .ok true → found = true ∧ differs = false) := by
  unfold Gen.Arith.cancelSpotGuards Gen.Arith.updateSpotGuards Gen.Arith.cancelPerpGuards Gen.Arith.updatePerpGuards
  refine ⟨?_, ?_, ?_, ?_⟩ <;> intro h <;> cases found <;> cases differs <;> simp at h ⊢

/-- and the owner of an existing order is never refused by these guards (cancel, update of a spot order). -/
theorem gen_owner_let_through (bal : Int) :
    Gen.Arith.cancelSpotGuards true false bal = .ok true ∧ Gen.Arith.updateSpotGuards true false = .ok true ∧
    Gen.Arith.cancelPerpGuards true false = .ok true := ⟨rfl, rfl, rfl⟩

/-- the free Boolean of each of the four guards is the comparison of the message's owner with the stored order's owner. -/
theorem gen_free_owner_guards :
    (Gen.Arith.freeOf "cancelSpotGuards").take 2 = ["#0.GetPendingSpotOrder(sdk.UnwrapSDKContext(#1), #2.OrderId)#1",
      "#0.GetPendingSpotOrder(sdk.UnwrapSDKContext(#1), #2.OrderId).OwnerAddress != #2.OwnerAddress"] ∧
    Gen.Arith.freeOf "updateSpotGuards" = ["#0.GetPendingSpotOrder(sdk.UnwrapSDKContext(#1), #2.OrderId)#1",
      "#2.OwnerAddress != #0.GetPendingSpotOrder(sdk.UnwrapSDKContext(#1), #2.OrderId).OwnerAddress"] ∧
    Gen.Arith.freeOf "cancelPerpGuards" = ["#0.GetPendingPerpetualOrder(sdk.UnwrapSDKContext(#1), #2.OrderId)#1",
      "#2.OwnerAddress != #0.GetPendingPerpetualOrder(sdk.UnwrapSDKContext(#1), #2.OrderId).OwnerAddress"] ∧
    (Gen.Arith.freeOf "updatePerpGuards").take 2 = ["#0.GetPendingPerpetualOrder(sdk.UnwrapSDKContext(#1), #2.OrderId)#1",
      "#2.OwnerAddress != #0.GetPendingPerpetualOrder(sdk.UnwrapSDKContext(#1), #2.OrderId).OwnerAddress"] := by decide

/-- the batch forms (`MsgCancelSpotOrders`, `MsgCancelPerpetualOrders`): the body of their loop, for an arbitrary listed id, is ONE call of the
single-order cancel, and an inner refusal refuses the whole message (the transaction is rolled back: nothing of the batch stays). -/
theorem gen_batch_cancel_refused_together (err : Bool) :
    (Gen.Arith.cancelSpotBatchBody err = .ok true → err = false) ∧ (Gen.Arith.cancelPerpBatchBody err = .ok true → err = false) := by
  unfold Gen.Arith.cancelSpotBatchBody Gen.Arith.cancelPerpBatchBody
  cases err <;> simp

/-- … and that inner call is made in the name of the batch message's OWN signer field (`msg.Creator` / `msg.OwnerAddress`), for the id the loop
is at — so `gen_owner_only` applies to every order of a batch (seeded change C20-8 put the stored owner of the order there). -/
theorem gen_free_batch_cancel :
    Gen.Arith.freeOf "cancelSpotBatchBody" = ["#0.CancelSpotOrder(#1, &types.MsgCancelSpotOrder{OwnerAddress: #2.Creator, OrderId: spotOrderId})#err"] ∧
    Gen.Arith.freeOf "cancelPerpBatchBody" = ["#0.CancelPerpetualOrder(#1, &types.MsgCancelPerpetualOrder{OwnerAddress: #2.OwnerAddress, OrderId: orderId})#err"] := by decide

end Elys.Orders.C20Src
