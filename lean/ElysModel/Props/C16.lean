/-
C16 — the oracle serves the newest live price of the asked asset; only feeders can write.
Property theorems only; helper lemmas live in ElysModel/Lemmas/Oracle.lean, the model (the code as
it stands, defects included) in ElysModel/Oracle/Model.lean.

The lookup is a reverse prefix scan over keys `"Price/value/" ++ asset ++ source ++ "/" ++ be64 ts`
with NO separator between asset and source, so the scans for `asset++"elys"`, `asset++"band"` and
`asset` also reach entries of other (asset, source) pairs. That defect is recorded by the
`…_witness` theorems; `lookup_exact_partial` is the property under the decidable hypothesis
`noCollision` that excludes it.
-/
import ElysModel.Lemmas.Oracle
namespace Elys.Oracle.C16
open Elys.Oracle

/-! ### the key-collision defect (witnesses, proved by evaluation) -/

/-- a genuine BTC price from the preferred source (elys, 60000, fed at t = 200), and a price for the
different asset "BTCelys" fed from source "x" at the EARLIER time 100. Both names pass
`ValidateBasic` (`sdk.ValidateDenom` for the asset, non-empty source). -/
def collisionStore : St :=
  run {} [
    .setPrice { asset := ascii "BTC", source := ascii "elys", price := 60000 * P, provider := [], ts := 200, height := 2 },
    .setPrice { asset := ascii "BTCelys", source := ascii "x", price := 7 * P, provider := [], ts := 100, height := 1 }]

/-- WITNESS: `GetAssetPrice "BTC"` returns the price stored for asset "BTCelys" (7, not 60000):
the key `BTCelysx/…` starts with the scan prefix `BTCelys` and sorts after `BTCelys/…`. -/
theorem prefix_collision_witness :
    getAssetPrice collisionStore (ascii "BTC") =
      some { asset := ascii "BTCelys", source := ascii "x", price := 7 * P, provider := [], ts := 100, height := 1 } := by
  decide

/-- the no-collision predicate is false on that store (the matcher of the known finding). -/
theorem prefix_collision_detected : noCollision collisionStore (ascii "BTC") = false := by decide

/-- WITNESS: two different (asset, source) pairs with the same concatenation share one key:
writing ("BTCe","lys") at the same timestamp overwrites ("BTC","elys"), and the lookup of "BTC"
then answers with the entry of asset "BTCe". -/
theorem split_collision_witness :
    let st := run {} [
      .setPrice { asset := ascii "BTC", source := ascii "elys", price := 60000 * P, provider := [], ts := 5, height := 1 },
      .setPrice { asset := ascii "BTCe", source := ascii "lys", price := 3 * P, provider := [], ts := 5, height := 1 }]
    (allPrices st).length = 1 ∧ (getAssetPrice st (ascii "BTC")).map (·.asset) = some (ascii "BTCe") := by
  decide

/-- WITNESS: the "/" separator is itself a legal denom character: the lookup of asset "BTCx/" reaches
the entry of asset "BTC", source "x". -/
theorem separator_collision_witness :
    let st := run {} [
      .setPrice { asset := ascii "BTC", source := ascii "x", price := 60000 * P, provider := [], ts := 5, height := 1 }]
    (getAssetPrice st (ascii "BTCx/")).map (·.asset) = some (ascii "BTC") := by
  decide

/-- WITNESS (same asset, wrong tier): with a live ("BTC","elys") price at t = 200, an OLDER price of
the same asset from source "elysx" wins the "elys" scan. -/
theorem preference_collision_witness :
    let st := run {} [
      .setPrice { asset := ascii "BTC", source := ascii "elys", price := 60000 * P, provider := [], ts := 200, height := 2 },
      .setPrice { asset := ascii "BTC", source := ascii "elysx", price := 1 * P, provider := [], ts := 100, height := 1 }]
    (getAssetPrice st (ascii "BTC")).map (fun p => (p.source, p.ts)) = some (ascii "elysx", 100) := by
  decide

/-- STATED (allowed by the property text, "any"): in the third tier the source chosen is the last
in byte order, not the most recently fed one — here "x" (t = 10) wins over "s" (t = 20). -/
theorem any_source_order_witness :
    let st := run {} [
      .setPrice { asset := ascii "BTC", source := ascii "x", price := 1 * P, provider := [], ts := 10, height := 1 },
      .setPrice { asset := ascii "BTC", source := ascii "s", price := 2 * P, provider := [], ts := 20, height := 2 }]
    (getAssetPrice st (ascii "BTC")).map (fun p => (p.source, p.ts)) = some (ascii "x", 10) := by
  decide

/-! ### reachable stores are well formed -/

/-- every store reachable from an empty price store by any history of keeper writes, feeds,
end-blockers, feeder / asset-info / params changes is well formed (sorted, keys derived from values,
uint64 timestamps): the hypothesis `WF` of the theorems below costs nothing. -/
theorem reachable_wf (st0 : St) (h0 : st0.prices = []) (ops : List Op) : WF (run st0 ops) :=
  wf_run (wf_empty st0 h0) ops

/-! ### lookup -/

/-- whatever a lookup returns is an entry that is in the store now (never a removed one). -/
theorem lookup_stored (st : St) (a : Bytes) (r : Price) (h : getAssetPrice st a = some r) :
    r ∈ allPrices st :=
  getAssetPrice_mem h

/-- PARTIAL (hypothesis `noCollision st a`, which excludes the key-collision defect above): on a
well-formed store in which no stored key `asset' ++ source' ++ "/" ++ be64 ts'` starts with
`a ++ "elys"`, `a ++ "band"` or `a` unless it belongs to (a, elys) / (a, band) / (a, _),
`GetAssetPrice a`
  * finds nothing only when no entry of asset `a` is stored;
  * otherwise returns a stored entry whose asset is exactly `a`,
  * from elys if any (a, elys) entry is stored, else from band if any (a, band) entry is stored
    (else from some source),
  * and that entry has the largest timestamp among the stored entries of `a` from its source.
What is missing for the unconditional statement is exactly `noCollision`: see
`prefix_collision_witness`, `split_collision_witness`, `separator_collision_witness`,
`preference_collision_witness`. -/
theorem lookup_exact_partial (st : St) (a : Bytes) (hw : WF st) (hn : noCollision st a = true) :
    match getAssetPrice st a with
    | none => ∀ e ∈ allPrices st, e.asset ≠ a
    | some r =>
      r ∈ allPrices st ∧ r.asset = a ∧
      ((∃ e ∈ allPrices st, e.asset = a ∧ e.source = ELYS) → r.source = ELYS) ∧
      ((¬ ∃ e ∈ allPrices st, e.asset = a ∧ e.source = ELYS) →
        (∃ e ∈ allPrices st, e.asset = a ∧ e.source = BAND) → r.source = BAND) ∧
      (∀ e ∈ allPrices st, e.asset = a → e.source = r.source → e.ts ≤ r.ts) := by
  have h1 := tier_spec hw a ELYS (fun e he => (noCollision_spec hn he).1)
  have h2 := tier_spec hw a BAND (fun e he => (noCollision_spec hn he).2.1)
  have h3 := any_spec hw a (fun e he => (noCollision_spec hn he).2.2)
  unfold getAssetPrice
  split at h1
  · -- no elys entry
    rename_i hE; rw [hE]; simp only
    split at h2
    · -- no band entry
      rename_i hB; rw [hB]; simp only
      split at h3
      · rename_i hA; rw [hA]; exact h3
      · rename_i r hA; rw [hA]
        obtain ⟨hr, ra, hmax⟩ := h3
        refine ⟨hr, ra, ?_, ?_, hmax⟩
        · rintro ⟨e, he, hea⟩; exact absurd hea (h1 e he)
        · rintro _ ⟨e, he, hea⟩; exact absurd hea (h2 e he)
    · rename_i r hB; rw [hB]; simp only
      obtain ⟨hr, ra, rs, hmax⟩ := h2
      refine ⟨hr, ra, ?_, fun _ _ => rs, fun e he ha hs => hmax e he ha (hs.trans rs)⟩
      rintro ⟨e, he, hea⟩; exact absurd hea (h1 e he)
  · rename_i r hE; rw [hE]; simp only
    obtain ⟨hr, ra, rs, hmax⟩ := h1
    exact ⟨hr, ra, fun _ => rs, fun hne => absurd ⟨r, hr, ra, rs⟩ hne, fun e he ha hs => hmax e he ha (hs.trans rs)⟩

/-- PARTIAL, the same statement under a hypothesis on the stored NAMES alone (no timestamps): the
asked asset contains no "/" and no stored `asset' ++ source'` starts with `a ++ "elys"`,
`a ++ "band"` or `a` unless it is that very (asset, source) pair (resp. an entry of asset `a`).
Missing for the unconditional statement: the same key-collision defect. -/
theorem lookup_exact_names_partial (st : St) (a : Bytes) (hw : WF st) (hn : namesNoCollision st a = true) :
    match getAssetPrice st a with
    | none => ∀ e ∈ allPrices st, e.asset ≠ a
    | some r =>
      r ∈ allPrices st ∧ r.asset = a ∧
      ((∃ e ∈ allPrices st, e.asset = a ∧ e.source = ELYS) → r.source = ELYS) ∧
      ((¬ ∃ e ∈ allPrices st, e.asset = a ∧ e.source = ELYS) →
        (∃ e ∈ allPrices st, e.asset = a ∧ e.source = BAND) → r.source = BAND) ∧
      (∀ e ∈ allPrices st, e.asset = a → e.source = r.source → e.ts ≤ r.ts) :=
  lookup_exact_partial st a hw (noCollision_of_names hn)

/-! ### expiry -/

/-- after `EndBlock` at (time, height) no stored price is expired by the time rule or by the height
rule (the sums are the code's uint64 sums), and exactly the expired ones were removed. -/
theorem expiry (st : St) (hw : WF st) (time height : Int) (e : Price) :
    e ∈ allPrices (endBlock st time height) ↔
      e ∈ allPrices st ∧
      ¬ (u64 (e.ts + st.params.expiry) < toU64 time) ∧ ¬ (u64 (e.height + st.params.life) < toU64 height) := by
  rw [mem_endBlock hw]
  simp [expired, expiredByTime, expiredByHeight]

/-- the same without modular arithmetic, for values that do not overflow uint64 and a
non-negative block time / height: no stored price has `ts + expiry < t` or `height + life < h`. -/
theorem expiry_no_overflow (st : St) (hw : WF st) (t h : Nat) (ht : t < 2 ^ 64) (hh : h < 2 ^ 64) (e : Price)
    (he : e ∈ allPrices (endBlock st t h))
    (h1 : e.ts + st.params.expiry < 2 ^ 64) (h2 : e.height + st.params.life < 2 ^ 64) :
    ¬ (e.ts + st.params.expiry < t) ∧ ¬ (e.height + st.params.life < h) := by
  have := ((expiry st hw t h e).mp he).2
  have e1 : toU64 (t : Int) = t := by unfold toU64; omega
  have e2 : toU64 (h : Int) = h := by unfold toU64; omega
  rw [e1, e2] at this
  unfold u64 at this
  rw [Nat.mod_eq_of_lt h1, Nat.mod_eq_of_lt h2] at this
  exact this

/-- a lookup after `EndBlock` never serves an entry that block expired. -/
theorem served_not_expired (st : St) (hw : WF st) (time height : Int) (a : Bytes) (r : Price)
    (h : getAssetPrice (endBlock st time height) a = some r) :
    ¬ (u64 (r.ts + st.params.expiry) < toU64 time) ∧ ¬ (u64 (r.height + st.params.life) < toU64 height) :=
  ((expiry st hw time height r).mp (getAssetPrice_mem h)).2

/-! ### denom lookups -/

/-- a denom without asset info, or whose display asset has no price, yields zero ("no price"). -/
theorem no_info_no_price (st : St) (denom : Bytes) :
    (getAssetInfo st denom = none → getAssetPriceFromDenom st denom = .ok 0) ∧
    (∀ info, getAssetInfo st denom = some info → getAssetPrice st info.display = none →
      getAssetPriceFromDenom st denom = .ok 0) := by
  refine ⟨fun h => ?_, fun info h1 h2 => ?_⟩
  · simp [getAssetPriceFromDenom, h]
  · simp [getAssetPriceFromDenom, h1, h2]

/-- with asset info and a price, the answer is that price divided (LegacyDec `Quo`) by 10^decimal. -/
theorem denom_price (st : St) (denom : Bytes) (info : AssetInfo) (p : Price) (d : Int)
    (h1 : getAssetInfo st denom = some info) (h2 : getAssetPrice st info.display = some p)
    (h3 : pow10 info.decimal = .ok d) :
    getAssetPriceFromDenom st denom = .ok (Dec.quo p.price d) := by
  simp [getAssetPriceFromDenom, h1, h2, h3, bind, Except.bind]

/-- no asset info, or no stored entry at all under the no-collision hypothesis: zero. -/
theorem no_entry_no_price (st : St) (denom : Bytes) (info : AssetInfo) (hw : WF st)
    (h1 : getAssetInfo st denom = some info) (hn : noCollision st info.display = true)
    (h0 : ∀ e ∈ allPrices st, e.asset ≠ info.display) :
    getAssetPriceFromDenom st denom = .ok 0 := by
  apply (no_info_no_price st denom).2 info h1
  have := lookup_exact_partial st info.display hw hn
  cases hg : getAssetPrice st info.display with
  | none => rfl
  | some r => rw [hg] at this; exact absurd this.2.1 (h0 r this.1)

/-! ### only feeders write -/

/-- a successful `FeedPrice` / `FeedMultiplePrices` implies the signer is registered and active in
the pre-state; a failed one leaves the whole state (so also the price store) unchanged; a signer that
is not a registered active feeder changes nothing. -/
theorem feeder_gate (st : St) (signer : Bytes) (f : Feed) (fs : List Feed) (t h : Int) :
    (∀ st', feedPrice st signer f t h = .ok st' → getFeeder st signer = some true) ∧
    (∀ st', feedMultiple st signer fs t h = .ok st' → getFeeder st signer = some true) ∧
    (∀ e, feedPrice st signer f t h = .error e → step st (.feed signer f t h) = st) ∧
    (∀ e, feedMultiple st signer fs t h = .error e → step st (.feedMulti signer fs t h) = st) ∧
    (getFeeder st signer ≠ some true →
      step st (.feed signer f t h) = st ∧ step st (.feedMulti signer fs t h) = st) := by
  refine ⟨fun st' hk => (feedPrice_ok hk).1, fun st' hk => (feedMultiple_ok hk).1, ?_, ?_, ?_⟩
  · intro e he; show commit st (feedPrice st signer f t h) = st; rw [he]; rfl
  · intro e he; show commit st (feedMultiple st signer fs t h) = st; rw [he]; rfl
  · intro hne
    constructor
    · show commit st (feedPrice st signer f t h) = st
      cases hk : feedPrice st signer f t h with
      | error e => rfl
      | ok st' => exact absurd (feedPrice_ok hk).1 hne
    · show commit st (feedMultiple st signer fs t h) = st
      cases hk : feedMultiple st signer fs t h with
      | error e => rfl
      | ok st' => exact absurd (feedMultiple_ok hk).1 hne

/-- a successful feed writes exactly the fed prices, stamped with the block's time and height and the
signer as provider, and touches neither the feeder set nor the asset infos. -/
theorem feed_writes (st st' : St) (signer : Bytes) (f : Feed) (t h : Int)
    (hk : feedPrice st signer f t h = .ok st') :
    st' = setPrice st { asset := f.asset, source := f.source, price := f.price, provider := signer,
                        ts := toU64 t, height := toU64 h } ∧
    st'.feeders = st.feeders ∧ st'.infos = st.infos := by
  have := (feedPrice_ok hk).2
  subst this
  exact ⟨rfl, rfl, rfl⟩

/-- the feeder-management messages never change a price. -/
theorem feeder_msgs_keep_prices (st : St) (op : Op)
    (hop : (∃ a act, op = .setFeeder a act) ∨ (∃ a, op = .deleteFeeder a) ∨
           (∃ auth fs, op = .addFeeders auth fs) ∨ (∃ auth fs, op = .removeFeeders auth fs)) :
    (step st op).prices = st.prices := by
  rcases hop with ⟨a, act, rfl⟩ | ⟨a, rfl⟩ | ⟨auth, fs, rfl⟩ | ⟨auth, fs, rfl⟩
  · exact (admin_prices st).1 a act
  · exact (admin_prices st).2.1 a
  · exact (admin_prices st).2.2.1 auth fs
  · exact (admin_prices st).2.2.2 auth fs

/-! ### non-vacuity -/

/-! ### BandChain answers: the rates of a request become prices of the symbols THAT request asked for -/

/-- a successful answer for request `id` writes exactly the band prices of the symbols `id` was acknowledged for, in order … -/
theorem band_answer_writes (st st' : St) (b : BandSt) (id : Nat) (rates : List Int) (mult : Nat) (time height : Int)
    (h : bandAnswer st b id rates mult time height = some st') :
    ∃ syms, b.reqs.lookup id = some syms ∧ syms.length = rates.length ∧
      st' = (bandPrices syms rates mult time height).foldl setPrice st := by
  unfold bandAnswer at h
  split at h
  · cases h
  · rename_i syms hs
    split at h
    · cases h
    · rename_i hl
      exact ⟨syms, hs, by simpa using hl, (Option.some.inj h).symm⟩

/-- … each rate under its own symbol, scaled by the multiplier, from source `band` -/
theorem band_prices_shape (syms : List Bytes) (rates : List Int) (mult : Nat) (time height : Int) (hl : syms.length = rates.length) :
    (bandPrices syms rates mult time height).map (·.asset) = syms ∧
    (bandPrices syms rates mult time height).map (·.price) = rates.map (· * 10 ^ (18 - mult)) ∧
    ∀ p ∈ bandPrices syms rates mult time height, p.source = BAND := by
  refine ⟨?_, ?_, ?_⟩
  · simp only [bandPrices, List.map_map]
    have : ((fun p : Price => p.asset) ∘ fun sr : Bytes × Int =>
        ({ asset := sr.1, source := BAND, price := sr.2 * 10 ^ (18 - mult), provider := AUTOMATION, ts := toU64 time, height := toU64 height } : Price)) = Prod.fst := rfl
    rw [this, ← List.unzip_fst, List.unzip_zip (by omega)]
  · simp only [bandPrices, List.map_map]
    have : ((fun p : Price => p.price) ∘ fun sr : Bytes × Int =>
        ({ asset := sr.1, source := BAND, price := sr.2 * 10 ^ (18 - mult), provider := AUTOMATION, ts := toU64 time, height := toU64 height } : Price)) =
        (fun r : Int => r * 10 ^ (18 - mult)) ∘ Prod.snd := rfl
    rw [this, ← List.map_map, ← List.unzip_snd, List.unzip_zip (by omega)]
  · intro p hp
    simp only [bandPrices, List.mem_map] at hp
    obtain ⟨sr, _, rfl⟩ := hp
    rfl

/-- an acknowledgement registers its own id and leaves every other request as it was: the late answer to request `n` is still
matched with what `n` asked for after `n + 1` (or any other request) has been acknowledged -/
theorem band_ack_registry (b : BandSt) (id : Nat) (syms : List Bytes) :
    (bandAck b id syms).reqs.lookup id = some syms ∧
    ∀ id', id' ≠ id → (bandAck b id syms).reqs.lookup id' = b.reqs.lookup id' := by
  refine ⟨by simp [bandAck, List.lookup], fun id' hne => ?_⟩
  have key : ∀ l : List (Nat × List Bytes), (l.filter (fun e => e.1 != id)).lookup id' = l.lookup id' := by
    intro l
    induction l with
    | nil => rfl
    | cons e es ih =>
      obtain ⟨k, v⟩ := e
      by_cases hk : k = id
      · subst hk
        have hc : ((k, v).1 != k) = false := by simp
        have hq : (id' == k) = false := by simpa using hne
        rw [List.filter_cons, if_neg (by simp [hc]), ih, List.lookup_cons, hq]
      · have hc : ((k, v).1 != id) = true := by simpa using hk
        rw [List.filter_cons, if_pos hc, List.lookup_cons, List.lookup_cons, ih]
  have h1 : (id' == id) = false := by simpa using hne
  simp only [bandAck, List.lookup_cons, h1]
  exact key b.reqs

/-- WITNESS (the shape of seeded change C16-5): request 101 asked for BTC and ETH, request 102 for ATOM and BTC; the late answer to 101
matched with the LAST acknowledged request stores BTC's rate as the price of ATOM; matched with its own request it prices BTC and ETH. -/
theorem band_last_request_witness :
    let b := bandAck (bandAck {} 101 [ascii "BTC", ascii "ETH"]) 102 [ascii "ATOM", ascii "BTC"]
    ((bandAnswer {} b b.last [30000000000, 2000000000] 6 1000 10).map (fun s => (allPrices s).map (·.asset))) = some [ascii "ATOM", ascii "BTC"] ∧
    ((bandAnswer {} b 101 [30000000000, 2000000000] 6 1000 10).map (fun s => (allPrices s).map (·.asset))) = some [ascii "BTC", ascii "ETH"] := by
  decide

/-- a reachable, non-trivial state: gov registers a feeder, the feeder feeds BTC from elys twice and
from band, ETH from "x" and "s"; an unregistered account and a deactivated feeder try to feed;
`EndBlock` at t = 1100 expires the first BTC/elys price (expiry 500). -/
def demo : St :=
  run { authority := ascii "gov", params := ⟨500, 1000⟩ } [
    .addFeeders (ascii "gov") [ascii "alice", ascii "bob"],
    .setFeeder (ascii "bob") false,
    .feed (ascii "alice") ⟨ascii "BTC", ascii "elys", 60000 * P⟩ 500 5,
    .feed (ascii "alice") ⟨ascii "BTC", ascii "band", 60100 * P⟩ 900 9,
    .feed (ascii "alice") ⟨ascii "BTC", ascii "elys", 61000 * P⟩ 1000 10,
    .feedMulti (ascii "alice") [⟨ascii "ETH", ascii "x", 3000 * P⟩, ⟨ascii "ETH", ascii "s", 3001 * P⟩] 1000 10,
    .feed (ascii "mallory") ⟨ascii "BTC", ascii "elys", 1⟩ 1001 10,
    .feed (ascii "bob") ⟨ascii "BTC", ascii "elys", 2⟩ 1001 10,
    .setInfo (ascii "ubtc") ⟨ascii "BTC", 8⟩,
    .endBlock 1100 11]

set_option exponentiation.threshold 400 in
/-- non-vacuity: `demo` meets the hypotheses of `lookup_exact_partial` for "BTC" and "ETH", holds
four prices, and the lookups give the newest elys price / an ETH price / the scaled denom price. -/
example : WF demo ∧ noCollision demo (ascii "BTC") = true ∧ noCollision demo (ascii "ETH") = true ∧
    namesNoCollision demo (ascii "BTC") = true ∧
    (allPrices demo).length = 4 ∧
    (getAssetPrice demo (ascii "BTC")).map (fun p => (p.source, p.ts, p.price)) = some (ELYS, 1000, 61000 * P) ∧
    (getAssetPrice demo (ascii "ETH")).map (·.asset) = some (ascii "ETH") ∧
    getAssetPrice demo (ascii "SOL") = none ∧
    (getAssetPriceFromDenom demo (ascii "ubtc")).toOption = some (61000 * P / 100000000) :=
  ⟨reachable_wf _ rfl _, by decide, by decide, by decide, by decide, by decide, by decide, by decide, by decide⟩

end Elys.Oracle.C16
