/-
C04 — source tie (see Props/C03Src.lean for what that is): the guards in front of the settlement of ONE hop of a swap,
x/amm/keeper/keeper_swap_exact_amount_in.go `InternalSwapExactAmountIn` and keeper_swap_exact_amount_out.go
`InternalSwapExactAmountOut` — the longest prefix of each function the translator understands, i.e. everything before
`UpdatePoolForSwap` moves the coins.  `.ok true` = the hop is settled; an error = refused before anything moved.
The amount the pool arithmetic quotes (`SwapOutAmtGivenIn` / `SwapInAmtGivenOut`, a read of the outside world here: a free
term) is compared with the limit the caller states, as the source has it now, for every quote and every limit.
The call of `UpdatePoolForSwap` is inside the prefix as a skipped effect whose arguments are pinned by the table (`gen_free_swap_guards`).
NOT covered by these theorems: what `UpdatePoolForSwap` does with them (the request blocks of mode c04 judge it on the real code), and the
route loops that hand the user's limit to the last / first hop.
Property theorems only.
-/
import ElysModel.Gen.Arith.swapExactInGuards
import ElysModel.Gen.Arith.swapExactOutGuards
import ElysModel.Gen.Arith.Table
namespace Elys.Amm.C04Src
open Elys Elys.Amm

/-- exact-in: a hop is settled only when the quoted output is positive and at least the stated minimum — whatever the pool
arithmetic quoted, whatever bonus or slippage it reported alongside. -/
theorem gen_exact_in_min_out (denomOut : String) (minOut fee : Int) (same : Bool) (slip bonus oracleOut : Int) (err : Bool) (quoted : Int) (upErr : Bool)
    (h : Gen.Arith.swapExactInGuards denomOut minOut fee same slip bonus oracleOut err quoted upErr = .ok true) :
    same = false ∧ err = false ∧ 0 < quoted ∧ minOut ≤ quoted := by
  unfold Gen.Arith.swapExactInGuards at h
  by_cases hs : same = true
  · simp [hs] at h
  by_cases he : err = true
  · simp [hs, he] at h
  by_cases h1 : quoted > 0
  · by_cases h2 : quoted < minOut
    · simp [hs, he, h1, h2] at h
    · exact ⟨by simpa using hs, by simpa using he, h1, by omega⟩
  · simp [hs, he, h1] at h

/-- … and only when the settlement itself (`UpdatePoolForSwap`, which moves the coins) did not fail. -/
theorem gen_exact_in_settlement_failed (denomOut : String) (minOut fee : Int) (same : Bool) (slip bonus oracleOut : Int) (err : Bool) (quoted : Int) :
    Gen.Arith.swapExactInGuards denomOut minOut fee same slip bonus oracleOut err quoted true ≠ .ok true := by
  unfold Gen.Arith.swapExactInGuards
  cases same <;> cases err <;> simp
  by_cases h1 : quoted ≤ 0 <;> by_cases h2 : quoted < minOut <;> simp [h1, h2]

/-- exact-in, the other direction: a positive quote at or above the minimum, in another denom than the input, is let through
(the guards refuse nothing else). -/
theorem gen_exact_in_complete (denomOut : String) (minOut fee slip bonus oracleOut quoted : Int) (h1 : 0 < quoted) (h2 : minOut ≤ quoted) :
    Gen.Arith.swapExactInGuards denomOut minOut fee false slip bonus oracleOut false quoted false = .ok true := by
  unfold Gen.Arith.swapExactInGuards
  have : ¬ quoted < minOut := by omega
  simp [h1, this, pure, Except.pure]

/-- exact-out: a hop is settled only when the quoted input is positive and at most the stated maximum, and the amount asked
for is strictly less than the pool's reserve of it. -/
theorem gen_exact_out_max_in (denomIn : String) (maxIn fee : Int) (same : Bool) (reserve : Int) (denomOut : String) (out : Int)
    (slip bonus oracleIn : Int) (err : Bool) (quoted : Int) (upErr : Bool)
    (h : Gen.Arith.swapExactOutGuards denomIn maxIn fee same reserve denomOut out slip bonus oracleIn err quoted upErr = .ok true) :
    same = false ∧ err = false ∧ out < reserve ∧ 0 < quoted ∧ quoted ≤ maxIn := by
  unfold Gen.Arith.swapExactOutGuards at h
  by_cases hs : same = true
  · simp [hs] at h
  by_cases h0 : out ≥ reserve
  · simp [hs, h0] at h
  by_cases he : err = true
  · simp [hs, h0, he] at h
  by_cases h1 : quoted ≤ 0
  · simp [hs, h0, he, h1] at h
  by_cases h2 : quoted > maxIn
  · simp [hs, h0, he, h1, h2] at h
  exact ⟨by simpa using hs, by simpa using he, by omega, by omega, by omega⟩

/-- exact-out with a stated maximum of zero or less is never settled (seeded change C04-5 made the guard apply to a positive
maximum only). -/
theorem gen_exact_out_nonpositive_max_refused (denomIn : String) (maxIn fee : Int) (same : Bool) (reserve : Int) (denomOut : String) (out : Int)
    (slip bonus oracleIn : Int) (err : Bool) (quoted : Int) (upErr : Bool) (hm : maxIn ≤ 0) :
    Gen.Arith.swapExactOutGuards denomIn maxIn fee same reserve denomOut out slip bonus oracleIn err quoted upErr ≠ .ok true := by
  intro h
  have := gen_exact_out_max_in _ _ _ _ _ _ _ _ _ _ _ _ _ h
  omega

/-- non-vacuity: a quote of 990 against a minimum of 980 is settled, against 991 refused; a quote of 1010 against a maximum
of 1010 is settled. -/
example : Gen.Arith.swapExactInGuards "uusdc" 980 0 false 0 0 0 false 990 false = .ok true ∧
    Gen.Arith.swapExactInGuards "uusdc" 991 0 false 0 0 0 false 990 false = .error .limitMax ∧
    Gen.Arith.swapExactOutGuards "uatom" 1010 0 false 5000 "uusdc" 1000 0 0 0 false 1010 false = .ok true := ⟨rfl, rfl, rfl⟩

set_option maxRecDepth 40000 in
/-- what the guards compare: the amount of the coin the pool arithmetic returned for THIS call (pool, snapshot of this block, the caller's
token and fee) — and the stated limit (parameter #7 resp. #6); the bonus is read and not added to it. And what is settled: `UpdatePoolForSwap`
is handed THAT SAME coin (the fifth resp. fourth argument is the first result of the same call), the caller's sender and recipient, the
token named in the request — the tie between the quote that was checked and the coins that move. -/
theorem gen_free_swap_guards :
    (Gen.Arith.freeOf "swapExactInGuards")[5]? = some "#4.SwapOutAmtGivenIn(#1, #0.oracleKeeper, &#0.GetAccountedPoolSnapshotOrSet(#1, #4), sdk.Coins{#5}, #6, #8, #0.accountedPoolKeeper, math.LegacyOneDec(), #0.GetParams(#1)).Amount" ∧
    (Gen.Arith.freeOf "swapExactOutGuards")[8]? = some "#4.SwapInAmtGivenOut(#1, #0.oracleKeeper, &#0.GetAccountedPoolSnapshotOrSet(#1, #4), sdk.Coins{#7}, #5, #8, #0.accountedPoolKeeper, math.LegacyOneDec(), #0.GetParams(#1)).Amount" ∧
    (Gen.Arith.freeOf "swapExactOutGuards").take 4 = ["#5 == #7.Denom", "#4.GetTotalPoolLiquidity()", "#7.Denom", "#7.Amount"] ∧
    Gen.Arith.skippedOf "swapExactInGuards" = ["defer", "#0.UpdatePoolForSwap(#1, #4, #2, #3, #5, #4.SwapOutAmtGivenIn(#1, #0.oracleKeeper, &#0.GetAccountedPoolSnapshotOrSet(#1, #4), sdk.Coins{#5}, #6, #8, #0.accountedPoolKeeper, math.LegacyOneDec(), #0.GetParams(#1)), #8, math.ZeroInt(), oracleOutAmount.TruncateInt(), weightBalanceBonus, false)"] ∧
    Gen.Arith.skippedOf "swapExactOutGuards" = ["defer", "#0.UpdatePoolForSwap(#1, #4, #2, #3, #4.SwapInAmtGivenOut(#1, #0.oracleKeeper, &#0.GetAccountedPoolSnapshotOrSet(#1, #4), sdk.Coins{#7}, #5, #8, #0.accountedPoolKeeper, math.LegacyOneDec(), #0.GetParams(#1)), #7, #8, oracleInAmount.TruncateInt(), math.ZeroInt(), weightBalanceBonus, true)"] := by decide

end Elys.Amm.C04Src
