/-
C08 — source tie (see Props/C03Src.lean for what that is): the part of a leveraged position's debt a close repays,
x/leveragelp/keeper/position_close.go `ForceCloseLong` — the window from the zero guard to the computation of the repay amount — as
the source has it now: liabilities · (shares closed / shares held), truncated.  A close in full repays the whole debt: nothing of the
debt stays behind with a position whose shares are all gone.
Property theorems only.
-/
import ElysModel.Gen.Arith.lpCloseRepay
import ElysModel.Gen.Arith.Table
import ElysModel.Lemmas.GenTie
import ElysModel.Lemmas.AmmBase
import ElysModel.Lemmas.AmmRound
import ElysModel.Lemmas.AmmSwap
namespace Elys.LevLp.C08Src
open Elys Elys.Amm

/-- closing all the shares of a position repays all of its liabilities, for every positive share count and every debt
(whenever the computation returns: the source asserts the 2^256 range of its intermediate decimals). -/
theorem gen_full_close_repays_all (shares liab r : Int) (liq : Bool) (hs : shares ≠ 0)
    (h : Gen.Arith.lpCloseRepay shares liq shares liab = .ok r) : r = liab := by
  unfold Gen.Arith.lpCloseRepay at h
  simp only [hs, if_false] at h
  obtain ⟨t1, h1, h⟩ := bind_ok h
  obtain ⟨t2, h2, h⟩ := bind_ok h
  cases h
  have hp : shares * P ≠ 0 := by
    intro h0; rcases Int.mul_eq_zero.mp h0 with h1 | h1
    · exact hs h1
    · exact absurd h1 (by decide)
  unfold quoC at h1
  simp only [hp, if_false] at h1
  have e1 := chk_ok h1
  rw [quo_self _ hp] at e1
  subst e1
  unfold mulC at h2
  have e2 := chk_ok h2
  subst e2
  unfold Dec.mul
  rw [round2_mul_P]
  exact Int.mul_tdiv_cancel _ (by decide)

/-- a partial close repays a part: for 0 ≤ closed ≤ held shares and a non-negative debt the repay amount is between 0 and the
liabilities — a close can never repay (and so take out of the position's account) more than is owed. -/
theorem gen_partial_close_repays_part (lp shares liab r : Int) (liq : Bool) (hl : 0 ≤ lp ∧ lp ≤ shares) (hs : 0 < shares) (hd : 0 ≤ liab)
    (h : Gen.Arith.lpCloseRepay lp liq shares liab = .ok r) : 0 ≤ r ∧ r ≤ liab := by
  unfold Gen.Arith.lpCloseRepay at h
  have hs0 : shares ≠ 0 := by omega
  simp only [hs0, if_false] at h
  obtain ⟨t1, h1, h⟩ := bind_ok h
  obtain ⟨t2, h2, h⟩ := bind_ok h
  cases h
  have hp : 0 < P := P_pos
  have hsp : 0 < shares * P := Int.mul_pos hs hp
  have hsp0 : shares * P ≠ 0 := by omega
  unfold quoC at h1
  simp only [hsp0, if_false] at h1
  have e1 := chk_ok h1
  subst e1
  unfold mulC at h2
  have e2 := chk_ok h2
  subst e2
  rw [mul_ofInt_left]
  have hlp : 0 ≤ lp * P := Int.mul_nonneg hl.1 (by omega)
  have hle : lp * P ≤ shares * P := Int.mul_le_mul_of_nonneg_right hl.2 (by omega)
  have hq1 : Dec.quo (lp * P) (shares * P) ≤ P := quo_le_one _ _ hlp hle hsp
  have hq0 : 0 ≤ Dec.quo (lp * P) (shares * P) := by
    unfold Dec.quo
    exact monotone_round2_le _ (Int.tdiv_nonneg (Int.mul_nonneg (Int.mul_nonneg hlp (by omega)) (by omega)) (by omega))
  generalize Dec.quo (lp * P) (shares * P) = q at *
  have h0 : 0 ≤ liab * q := Int.mul_nonneg hd hq0
  have h1' : liab * q ≤ liab * P := Int.mul_le_mul_of_nonneg_left hq1 hd
  constructor
  · exact Int.tdiv_nonneg h0 (by omega)
  · have : (liab * q).tdiv P ≤ (liab * P).tdiv P := Int.tdiv_le_tdiv hp h1'
    rwa [Int.mul_tdiv_cancel _ (by omega)] at this

/-- a position without shares cannot be closed (the division is refused, not performed). -/
theorem gen_no_shares_refused (lp liab : Int) (liq : Bool) : Gen.Arith.lpCloseRepay lp liq 0 liab = .error .amountTooLow := rfl

/-- closing nothing repays nothing. -/
theorem gen_zero_close_repays_nothing (shares liab r : Int) (liq : Bool) (h : Gen.Arith.lpCloseRepay 0 liq shares liab = .ok r) : r = 0 := by
  unfold Gen.Arith.lpCloseRepay at h
  by_cases hs : shares = 0
  · simp [hs] at h
  · simp only [hs, if_false] at h
    obtain ⟨t1, h1, h⟩ := bind_ok h
    obtain ⟨t2, h2, h⟩ := bind_ok h
    cases h
    unfold quoC at h1
    have hp : shares * P ≠ 0 := by
      intro h0; rcases Int.mul_eq_zero.mp h0 with h1 | h1
      · exact hs h1
      · exact absurd h1 (by decide)
    simp only [hp, if_false] at h1
    have e1 := chk_ok h1
    subst e1
    unfold mulC at h2
    have e2 := chk_ok h2
    subst e2
    have z : Dec.quo (0 * P) (shares * P) = 0 := by
      unfold Dec.quo
      have : (0 * P * P * P).tdiv (shares * P) = 0 * P := by simp
      rw [this, round2_mul_P]
    rw [z]
    unfold Dec.mul
    have : liab * P * 0 = 0 * P := by simp
    rw [this, round2_mul_P]
    simp

/-- non-vacuity: 250 of 1000 shares closed on a debt of 801 repays 200 (200.25 truncated). -/
example : Gen.Arith.lpCloseRepay 250 false 1000 801 = .ok 200 := by rfl

/-- what the window reads: the position's own share count and the total liabilities of the debt record refreshed just before. -/
theorem gen_free_lpCloseRepay : Gen.Arith.freeOf "lpCloseRepay" = ["#2.LeveragedLpAmount", "debt.GetTotalLiablities()"] := by decide

end Elys.LevLp.C08Src
