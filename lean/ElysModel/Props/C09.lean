/-
C09 — perpetual pool aggregates equal the sum of positions; the counter equals the stored positions; custody is backed.
Property theorems only.
-/
import ElysModel.Lemmas.Ids
import ElysModel.Ledger.Perp
namespace Elys.Perp.C09
open FMap

local macro "keysplit" : tactic => `(tactic| (split <;> first | (rename_i hk; subst hk) | skip))

/-- aggregates = Σ over ALL recorded position fields, positions that are not stored carry nothing, counter = stored. -/
def Inv (s : St) : Prop :=
  (∀ k, s.agg.get k = sumPos s k) ∧ s.count = s.live.total ∧ (∀ id, s.live.get id = 0 ∨ s.live.get id = 1) ∧
  (∀ mk : MK, s.live.get mk.1 = 0 → s.pos.get mk = 0) ∧ (keys s.pos).Nodup

/-- `DestroyMTP` does not look at the position's fields: the aggregates stay exact only if they are all zero by then
(the close path reduces them by the closing ratio 1 first). -/
def opOk (s : St) : Op → Prop
  | .destroy id => ∀ k, s.pos.get (id, k) = 0
  | _ => True

theorem sumPos_add (m : FMap MK) (id : Nat) (k q : K) (x : Int) :
    sumIf (fun mk => mk.2 == q) (m.add (id, k) x) = sumIf (fun mk => mk.2 == q) m + (if k = q then x else 0) := by
  rw [sumIf_add]; simp

/-- one primitive preserves the invariant, for all amounts (destroy: under `opOk`). -/
theorem step_inv {s s' : St} {op : Op} (hi : Inv s) (hok : opOk s op) (h : step s op = .ok s') : Inv s' := by
  obtain ⟨h1, h2, h3, h4, h5⟩ := hi
  cases op with
  | openMtp id =>
    simp only [step] at h
    split at h; · simp at h
    rename_i hl
    simp only [Except.ok.injEq] at h; subst h
    have hl0 : s.live.get id = 0 := by omega
    refine ⟨h1, by simp only [total_set]; omega, fun j => ?_, fun mk hmk => ?_, h5⟩
    · simp only [get_set]; keysplit
      · right; rfl
      · exact h3 j
    · by_cases e : id = mk.1
      · subst e; simp [get_set] at hmk
      · simp only [get_set, e, if_false] at hmk; exact h4 mk hmk
  | upd id k x =>
    simp only [step] at h
    split at h; · simp at h
    rename_i hl
    simp only [Except.ok.injEq] at h; subst h
    refine ⟨fun q => ?_, h2, h3, fun mk hmk => ?_, keys_nodup_add _ _ _ h5⟩
    · have := h1 q; simp only [sumPos, sumPos_add, get_add] at *; split <;> simp_all
    · by_cases e : (id, k) = mk
      · subst e; simp only at hmk; omega
      · simp only [get_add, e, if_false]; exact h4 mk hmk
  | destroy id =>
    simp only [step] at h
    split at h; · simp at h
    rename_i hl
    simp only [Except.ok.injEq] at h; subst h
    refine ⟨h1, by simp only [total_set]; omega, fun j => ?_, fun mk hmk => ?_, h5⟩
    · simp only [get_set]; keysplit
      · left; rfl
      · exact h3 j
    · by_cases e : id = mk.1
      · obtain ⟨i', k'⟩ := mk; simp only at e; subst e; exact hok k'
      · simp only [get_set, e, if_false] at hmk; exact h4 mk hmk
  | bookDelta p d x =>
    simp only [step, Except.ok.injEq] at h; subst h; exact ⟨h1, h2, h3, h4, h5⟩
  | guard p ds =>
    simp only [step] at h
    split at h
    · simp only [Except.ok.injEq] at h; subst h; exact ⟨h1, h2, h3, h4, h5⟩
    · simp at h

/-- the aggregates equal the sum over the STORED positions (what the property states). -/
theorem agg_eq_sum_live (s : St) (hi : Inv s) (k : K) : s.agg.get k = sumLive s k := by
  obtain ⟨h1, _, h3, h4, h5⟩ := hi
  rw [h1 k]
  unfold sumPos sumLive
  apply sumIf_congr_zero _ _ _ h5
  intro mk _ hne
  apply h4 mk
  rcases h3 mk.1 with h0 | h1'
  · exact h0
  · exfalso; apply hne; simp [h1']

/-- an atomic macro-op (message handler) preserves the invariant -/
theorem atomic_inv {s s' : St} (ops : List Op) (hi : Inv s)
    (hok : ∀ (s0 : St) (op : Op), op ∈ ops → Inv s0 → opOk s0 op)
    (h : runAtomic s ops = .ok s') : Inv s' := by
  induction ops generalizing s with
  | nil => simp [runAtomic, pure, Except.pure] at h; subst h; exact hi
  | cons op ops ih =>
    simp only [runAtomic, List.foldlM_cons, bind, Except.bind] at h
    cases h1 : step s op with
    | error e => simp [h1] at h
    | ok s1 =>
      simp only [h1] at h
      exact ih (step_inv hi (hok s op (List.mem_cons_self ..) hi) h1) (fun s0 o ho => hok s0 o (List.mem_cons_of_mem _ ho)) h

/-- destroy-free macro-ops need no side condition -/
def noDestroy : Op → Prop
  | .destroy _ => False
  | _ => True

/-- every history of destroy-free macro-ops — PARTIAL: histories with `destroy` need the destroyed position's fields
to be zero at that point (`opOk`), which the close path establishes by reducing every field by the closing ratio 1;
that arithmetic is witnessed, not modelled. -/
theorem run_inv_partial (s : St) (macros : List (List Op)) (hi : Inv s) (hn : ∀ m ∈ macros, ∀ op ∈ m, noDestroy op) :
    Inv (run s macros) := by
  induction macros generalizing s with
  | nil => exact hi
  | cons m ms ih =>
    apply ih _ _ (fun m' h => hn m' (List.mem_cons_of_mem _ h))
    unfold stepTx
    cases h : runAtomic s m with
    | error e => exact hi
    | ok s' =>
      refine atomic_inv m hi (fun s0 op ho _ => ?_) h
      have := hn m (List.mem_cons_self ..) op ho
      cases op <;> simp_all [opOk, noDestroy]

/-- WITNESS: destroying a position that still carries liabilities leaves the pool aggregate above the sum of positions. -/
theorem destroy_residual_witness :
    let k : K := (3, true, "uusdc", 1)
    let s := run {} [[.openMtp 1, .upd 1 k 500], [.destroy 1]]
    s.agg.get k = 500 ∧ sumLive s k = 0 := by decide

/-- custody is backed after every macro-op that ends in the minimum-custody guard (PARTIAL: interest / funding
settlement inside ClosePositions and TakeFundPayment run without the guard; they take the same amount out of custody and
out of the amm book, see `settle_preserves_slack`). -/
theorem custody_backed_partial {s s' : St} {p : Nat} {ds : List String} (h : step s (.guard p ds) = .ok s') :
    ∀ d ∈ ds, custodyTotal s' p d ≤ s'.book.get (p, d) := by
  simp only [step] at h
  split at h
  · rename_i hall
    simp only [Except.ok.injEq] at h; subst h
    intro d hd
    have := List.all_eq_true.mp hall d hd
    simpa using this
  · simp at h

/-- taking the same amount out of a position's custody (paired with the pool aggregate) and out of the amm book
leaves `book − Σ custody` unchanged. -/
theorem settle_preserves_slack {s s1 s2 : St} {id p : Nat} {long : Bool} {d : String} {x : Int}
    (h1 : step s (.upd id (p, long, d, 0) (-x)) = .ok s1) (h2 : step s1 (.bookDelta p d (-x)) = .ok s2) :
    s2.book.get (p, d) - custodyTotal s2 p d = s.book.get (p, d) - custodyTotal s p d := by
  simp only [step] at h1 h2
  split at h1; · simp at h1
  simp only [Except.ok.injEq] at h1 h2; subst h1; subst h2
  cases long <;> simp [custodyTotal, get_add] <;> omega

/-- non-vacuity -/
example : Inv (run {} [[.openMtp 1, .upd 1 (3, true, "uatom", 0) 40, .upd 1 (3, true, "uusdc", 1) 200, .upd 1 (3, true, "uusdc", 2) 50],
    [.openMtp 2, .upd 2 (3, false, "uusdc", 0) 10], [.upd 1 (3, true, "uatom", 0) (-3)]]) := by
  apply run_inv_partial
  · exact ⟨fun _ => by simp [sumPos, sumIf, FMap.get], by simp [total, sumIf], fun _ => by simp [FMap.get], fun _ _ => by simp [FMap.get], by simp [keys]⟩
  · intro m hm op ho; simp at hm
    rcases hm with h | h | h <;> subst h <;> simp at ho <;> (try rcases ho with h | h | h | h) <;> (try subst h) <;> simp_all [noDestroy]

/-! ### ids of stored positions (the store key is derived from the id) -/

theorem ids_run_inv (s : Ids.St) (ops : List Ids.Op) (hi : Ids.InvLast s) (hr : ∀ op ∈ ops, Ids.repaired op) :
    Ids.InvLast (Ids.runLast s ops) := by
  induction ops generalizing s with
  | nil => exact hi
  | cons op ops ih =>
    exact ih _ (Ids.stepLast_inv hi (hr op (List.mem_cons_self ..))) (fun o ho => hr o (List.mem_cons_of_mem _ ho))

/-- over every history of opens, closes and export / import restarts of the module's genesis (counter set to the larger of the
number of imported positions and the highest imported id — the rule since 41f14ef), no stored position has an id above the
counter and no id is stored twice … -/
theorem ids_never_reused (ops : List Ids.Op) (hr : ∀ op ∈ ops, Ids.repaired op) : Ids.InvLast (Ids.runLast {} ops) :=
  ids_run_inv {} ops ⟨fun _ h => by simp at h, List.nodup_nil⟩ hr

/-- … hence the id the next open hands out belongs to no stored position -/
theorem next_id_fresh (s : Ids.St) (hi : Ids.InvLast s) : s.ctr + 1 ∉ s.live :=
  fun hm => by have := hi.1 _ hm; omega

/-- WITNESS (before 41f14ef): three opens, the first position is closed, the module is restarted from its exported genesis with the
counter set to the NUMBER of positions (2): the next open takes id 3, which a stored position still has. -/
theorem import_by_length_witness :
    (Ids.runLast {} [.create, .create, .create, .remove 1, .reimport .byLength, .create]).live = [3, 3, 2] ∧
    (Ids.runLast {} [.create, .create, .create, .remove 1, .reimport .byMax, .create]).live = [4, 3, 2] := by
  constructor <;> decide

end Elys.Perp.C09
