/-
C15 — users' assets are never minted or destroyed by the protocol. Property theorems only.
-/
import ElysModel.Ledger.Supply
namespace Elys.Supply.C15
open FMap

/-- the burner only ever burns the native token — what the property allows; the code burns any denom (witness below) -/
def opAllowed : Op → Prop
  | .burnerBurn d _ => classify d = .native
  | _ => True

/-- externally-issued supply is unchanged by every allowed op -/
theorem external_conserved {s s' : St} {op : Op} (d : String) (hd : classify d = .external) (ha : opAllowed op)
    (h : step s op = .ok s') : s'.supply.get d = s.supply.get d := by
  cases op with
  | shareMint e x =>
    simp only [step] at h; split at h; · simp at h
    split at h; · simp at h
    rename_i hc
    simp only [Except.ok.injEq] at h; subst h
    have : e ≠ d := by intro he; subst he; simp_all
    simp [get_add, this]
  | shareBurn e x =>
    simp only [step] at h; split at h; · simp at h
    split at h; · simp at h
    rename_i hc
    split at h; · simp at h
    simp only [Except.ok.injEq] at h; subst h
    have : e ≠ d := by intro he; subst he; simp_all
    simp [get_add, this]
  | vestingRelease x =>
    simp only [step] at h; split at h; · simp at h
    simp only [Except.ok.injEq] at h; subst h
    have : "uelys" ≠ d := by intro he; subst he; simp [classify] at hd
    simp [get_add, this]
  | burnerBurn e x =>
    simp only [step] at h; split at h; · simp at h
    split at h; · simp at h
    simp only [Except.ok.injEq] at h; subst h
    have : e ≠ d := by intro he; subst he; simp only [opAllowed] at ha; rw [ha] at hd; cases hd
    simp [get_add, this]
  | transfer => simp only [step, Except.ok.injEq] at h; subst h; rfl

/-- … over every history -/
theorem external_conserved_run (s : St) (ops : List Op) (d : String) (hd : classify d = .external)
    (ha : ∀ op ∈ ops, opAllowed op) : (run s ops).supply.get d = s.supply.get d := by
  induction ops generalizing s with
  | nil => rfl
  | cons op ops ih =>
    have := ih (stepTx s op) (fun o h => ha o (List.mem_cons_of_mem _ h))
    rw [show run s (op :: ops) = run (stepTx s op) ops from rfl, this]
    unfold stepTx
    cases h : step s op with
    | error e => rfl
    | ok s' => exact external_conserved d hd (ha op (List.mem_cons_self ..)) h

/-- the native token's supply goes up only through vesting releases … -/
theorem elys_up_only_vesting {s s' : St} {op : Op} (h : step s op = .ok s')
    (hup : s.supply.get "uelys" < s'.supply.get "uelys") : ∃ x, op = .vestingRelease x := by
  cases op with
  | shareMint e x =>
    simp only [step] at h; split at h; · simp at h
    split at h; · simp at h
    rename_i hc
    simp only [Except.ok.injEq] at h; subst h
    have : e ≠ "uelys" := by intro he; subst he; simp [classify] at hc
    simp [get_add, this] at hup
  | shareBurn e x =>
    simp only [step] at h; split at h; · simp at h
    split at h; · simp at h
    split at h; · simp at h
    simp only [Except.ok.injEq] at h; subst h
    by_cases he : e = "uelys"
    · subst he; simp only [get_add, if_true] at hup; omega
    · simp only [get_add, he, if_false] at hup; omega
  | vestingRelease x => exact ⟨x, rfl⟩
  | burnerBurn e x =>
    simp only [step] at h; split at h; · simp at h
    split at h; · simp at h
    simp only [Except.ok.injEq] at h; subst h
    by_cases he : e = "uelys"
    · subst he; simp only [get_add, if_true] at hup; omega
    · simp only [get_add, he, if_false] at hup; omega
  | transfer => simp only [step, Except.ok.injEq] at h; subst h; omega

/-- … and down only through the burner -/
theorem elys_down_only_burner {s s' : St} {op : Op} (h : step s op = .ok s')
    (hdn : s'.supply.get "uelys" < s.supply.get "uelys") : ∃ x, op = .burnerBurn "uelys" x := by
  cases op with
  | shareMint e x =>
    simp only [step] at h; split at h; · simp at h
    split at h; · simp at h
    simp only [Except.ok.injEq] at h; subst h
    by_cases he : e = "uelys"
    · subst he; simp only [get_add, if_true] at hdn; omega
    · simp only [get_add, he, if_false] at hdn; omega
  | shareBurn e x =>
    simp only [step] at h; split at h; · simp at h
    split at h; · simp at h
    rename_i hc
    split at h; · simp at h
    simp only [Except.ok.injEq] at h; subst h
    have : e ≠ "uelys" := by intro he; subst he; simp [classify] at hc
    simp [get_add, this] at hdn
  | vestingRelease x =>
    simp only [step] at h; split at h; · simp at h
    simp only [Except.ok.injEq] at h; subst h
    simp only [get_add, if_true] at hdn; omega
  | burnerBurn e x =>
    simp only [step] at h; split at h; · simp at h
    split at h; · simp at h
    simp only [Except.ok.injEq] at h; subst h
    by_cases he : e = "uelys"
    · subst he; exact ⟨x, rfl⟩
    · simp [get_add, he] at hdn
  | transfer => simp only [step, Except.ok.injEq] at h; subst h; omega

/-- share tokens are minted and burned only by the paired share ops of the same denom -/
theorem share_paired {s s' : St} {op : Op} (d : String) (hd : classify d = .share) (h : step s op = .ok s')
    (hch : s'.supply.get d ≠ s.supply.get d) : (∃ x, op = .shareMint d x) ∨ (∃ x, op = .shareBurn d x) ∨ (∃ x, op = .burnerBurn d x) := by
  cases op with
  | shareMint e x =>
    simp only [step] at h; split at h; · simp at h
    split at h; · simp at h
    simp only [Except.ok.injEq] at h; subst h
    by_cases he : e = d
    · subst he; exact Or.inl ⟨x, rfl⟩
    · simp [get_add, he] at hch
  | shareBurn e x =>
    simp only [step] at h; split at h; · simp at h
    split at h; · simp at h
    split at h; · simp at h
    simp only [Except.ok.injEq] at h; subst h
    by_cases he : e = d
    · subst he; exact Or.inr (Or.inl ⟨x, rfl⟩)
    · simp [get_add, he] at hch
  | vestingRelease x =>
    simp only [step] at h; split at h; · simp at h
    simp only [Except.ok.injEq] at h; subst h
    have : "uelys" ≠ d := by intro he; subst he; simp [classify] at hd
    simp [get_add, this] at hch
  | burnerBurn e x =>
    simp only [step] at h; split at h; · simp at h
    split at h; · simp at h
    simp only [Except.ok.injEq] at h; subst h
    by_cases he : e = d
    · subst he; exact Or.inr (Or.inr ⟨x, rfl⟩)
    · simp [get_add, he] at hch
  | transfer => simp only [step, Except.ok.injEq] at h; subst h; exact absurd rfl hch

/-- WITNESS (by design of x/burner): a user sends 400 uusdc, a denom that has bank metadata, to the zero address; the
next epoch hook burns it: externally-issued supply goes down in block processing. -/
theorem burner_external_witness :
    (run { supply := [("uusdc", 1000)] } [.transfer, .burnerBurn "uusdc" 400]).supply.get "uusdc" = 600 ∧ classify "uusdc" = .external := by
  refine ⟨by decide, by simp [classify]⟩

example : classify "uusdc" = .external ∧ classify "amm/pool/3" = .share ∧ classify "uelys" = .native := by
  refine ⟨by simp [classify], by simp [classify], by simp [classify]⟩

end Elys.Supply.C15
