/-
C15 — users' assets are never minted or destroyed by the protocol. Property theorems only.
-/
import ElysModel.Ledger.Supply
import ElysModel.Gen.MintBurn
namespace Elys.Supply.C15
open FMap

/-- the burner only ever burns the native token — what the property allows; the code burns any denom (witness below) -/
def opAllowed : Op → Prop
  | .burnerBurn d _ => classify d = .native
  | _ => True

/-- externally-issued supply is unchanged by every allowed op -/
theorem external_conserved {s s' : St} {op : Op} (d : String) (hd : classify d = .external) (ha : opAllowed op)
    (h : step s op = .ok s') : s'.supply.get d = s.supply.get d := by
  cases op with
  | shareMint e x =>
    simp only [step] at h; split at h; · simp at h
    split at h; · simp at h
    rename_i hc
    simp only [Except.ok.injEq] at h; subst h
    have : e ≠ d := by intro he; subst he; simp_all
    simp [get_add, this]
  | shareBurn e x =>
    simp only [step] at h; split at h; · simp at h
    split at h; · simp at h
    rename_i hc
    split at h; · simp at h
    simp only [Except.ok.injEq] at h; subst h
    have : e ≠ d := by intro he; subst he; simp_all
    simp [get_add, this]
  | vestingRelease x =>
    simp only [step] at h; split at h; · simp at h
    simp only [Except.ok.injEq] at h; subst h
    have : "uelys" ≠ d := by intro he; subst he; simp [classify] at hd
    simp [get_add, this]
  | burnerBurn e x =>
    simp only [step] at h; split at h; · simp at h
    split at h; · simp at h
    simp only [Except.ok.injEq] at h; subst h
    have : e ≠ d := by intro he; subst he; simp only [opAllowed] at ha; rw [ha] at hd; cases hd
    simp [get_add, this]
  | transfer => simp only [step, Except.ok.injEq] at h; subst h; rfl

/-- … over every history -/
theorem external_conserved_run (s : St) (ops : List Op) (d : String) (hd : classify d = .external)
    (ha : ∀ op ∈ ops, opAllowed op) : (run s ops).supply.get d = s.supply.get d := by
  induction ops generalizing s with
  | nil => rfl
  | cons op ops ih =>
    have := ih (stepTx s op) (fun o h => ha o (List.mem_cons_of_mem _ h))
    rw [show run s (op :: ops) = run (stepTx s op) ops from rfl, this]
    unfold stepTx
    cases h : step s op with
    | error e => rfl
    | ok s' => exact external_conserved d hd (ha op (List.mem_cons_self ..)) h

/-- the native token's supply goes up only through vesting releases … -/
theorem elys_up_only_vesting {s s' : St} {op : Op} (h : step s op = .ok s')
    (hup : s.supply.get "uelys" < s'.supply.get "uelys") : ∃ x, op = .vestingRelease x := by
  cases op with
  | shareMint e x =>
    simp only [step] at h; split at h; · simp at h
    split at h; · simp at h
    rename_i hc
    simp only [Except.ok.injEq] at h; subst h
    have : e ≠ "uelys" := by intro he; subst he; simp [classify] at hc
    simp [get_add, this] at hup
  | shareBurn e x =>
    simp only [step] at h; split at h; · simp at h
    split at h; · simp at h
    split at h; · simp at h
    simp only [Except.ok.injEq] at h; subst h
    by_cases he : e = "uelys"
    · subst he; simp only [get_add, if_true] at hup; omega
    · simp only [get_add, he, if_false] at hup; omega
  | vestingRelease x => exact ⟨x, rfl⟩
  | burnerBurn e x =>
    simp only [step] at h; split at h; · simp at h
    split at h; · simp at h
    simp only [Except.ok.injEq] at h; subst h
    by_cases he : e = "uelys"
    · subst he; simp only [get_add, if_true] at hup; omega
    · simp only [get_add, he, if_false] at hup; omega
  | transfer => simp only [step, Except.ok.injEq] at h; subst h; omega

/-- … and down only through the burner -/
theorem elys_down_only_burner {s s' : St} {op : Op} (h : step s op = .ok s')
    (hdn : s'.supply.get "uelys" < s.supply.get "uelys") : ∃ x, op = .burnerBurn "uelys" x := by
  cases op with
  | shareMint e x =>
    simp only [step] at h; split at h; · simp at h
    split at h; · simp at h
    simp only [Except.ok.injEq] at h; subst h
    by_cases he : e = "uelys"
    · subst he; simp only [get_add, if_true] at hdn; omega
    · simp only [get_add, he, if_false] at hdn; omega
  | shareBurn e x =>
    simp only [step] at h; split at h; · simp at h
    split at h; · simp at h
    rename_i hc
    split at h; · simp at h
    simp only [Except.ok.injEq] at h; subst h
    have : e ≠ "uelys" := by intro he; subst he; simp [classify] at hc
    simp [get_add, this] at hdn
  | vestingRelease x =>
    simp only [step] at h; split at h; · simp at h
    simp only [Except.ok.injEq] at h; subst h
    simp only [get_add, if_true] at hdn; omega
  | burnerBurn e x =>
    simp only [step] at h; split at h; · simp at h
    split at h; · simp at h
    simp only [Except.ok.injEq] at h; subst h
    by_cases he : e = "uelys"
    · subst he; exact ⟨x, rfl⟩
    · simp [get_add, he] at hdn
  | transfer => simp only [step, Except.ok.injEq] at h; subst h; omega

/-- share tokens are minted and burned only by the paired share ops of the same denom -/
theorem share_paired {s s' : St} {op : Op} (d : String) (hd : classify d = .share) (h : step s op = .ok s')
    (hch : s'.supply.get d ≠ s.supply.get d) : (∃ x, op = .shareMint d x) ∨ (∃ x, op = .shareBurn d x) ∨ (∃ x, op = .burnerBurn d x) := by
  cases op with
  | shareMint e x =>
    simp only [step] at h; split at h; · simp at h
    split at h; · simp at h
    simp only [Except.ok.injEq] at h; subst h
    by_cases he : e = d
    · subst he; exact Or.inl ⟨x, rfl⟩
    · simp [get_add, he] at hch
  | shareBurn e x =>
    simp only [step] at h; split at h; · simp at h
    split at h; · simp at h
    split at h; · simp at h
    simp only [Except.ok.injEq] at h; subst h
    by_cases he : e = d
    · subst he; exact Or.inr (Or.inl ⟨x, rfl⟩)
    · simp [get_add, he] at hch
  | vestingRelease x =>
    simp only [step] at h; split at h; · simp at h
    simp only [Except.ok.injEq] at h; subst h
    have : "uelys" ≠ d := by intro he; subst he; simp [classify] at hd
    simp [get_add, this] at hch
  | burnerBurn e x =>
    simp only [step] at h; split at h; · simp at h
    split at h; · simp at h
    simp only [Except.ok.injEq] at h; subst h
    by_cases he : e = d
    · subst he; exact Or.inr (Or.inr ⟨x, rfl⟩)
    · simp [get_add, he] at hch
  | transfer => simp only [step, Except.ok.injEq] at h; subst h; exact absurd rfl hch

/-- WITNESS (by design of x/burner): a user sends 400 uusdc, a denom that has bank metadata, to the zero address; the
next epoch hook burns it: externally-issued supply goes down in block processing. -/
theorem burner_external_witness :
    (run { supply := [("uusdc", 1000)] } [.transfer, .burnerBurn "uusdc" 400]).supply.get "uusdc" = 600 ∧ classify "uusdc" = .external := by
  refine ⟨by decide, by simp [classify]⟩

example : classify "uusdc" = .external ∧ classify "amm/pool/3" = .share ∧ classify "uelys" = .native := by
  refine ⟨by simp [classify], by simp [classify], by simp [classify]⟩

/-! ### every mint / burn call site of the code (regenerated table `Gen.MintBurn.sites`, harness/cmd/mintburn) -/

/-- what a call site is, as read by a human once; the table below is re-read whenever the regenerated one differs from it -/
inductive SiteCls
  | shareMint | shareBurn          -- pool / vault shares against a deposit or withdrawal (Op.shareMint / Op.shareBurn)
  | vestingRelease                 -- ELYS against vested Eden (Op.vestingRelease)
  | virtualMint                    -- Eden / EdenB through the commitment keeper's wrapper, which books them in the commitment ledger and mints nothing
  | commitmentWrapper              -- the wrapper itself: strips Eden / EdenB, passes the rest (nothing, for the callers above) to x/bank
  | burner                         -- Op.burnerBurn: as coded any denom (known finding C15-burner-burns-any-denom)
  | migrationOnly                  -- called only from an upgrade migration (x/amm/migrations/v9): not part of block processing
  | testHelper                     -- app/test_setup.go
deriving Repr, DecidableEq

open Elys.Gen.MintBurn in
def expectedSites : List (Site × SiteCls) := [
  ({ pkg := "app", file := "test_setup.go", fn := "initAccountWithCoins", callee := "MintCoins", recv := "github.com/cosmos/cosmos-sdk/x/bank/keeper.Keeper", modArg := "minttypes.ModuleName", coins := "coins", guards := "" }, .testHelper),
  ({ pkg := "x/amm/keeper", file := "pool.go", fn := "Keeper.MatchAmmBalances", callee := "MintCoins", recv := "x/amm/types.BankKeeper", modArg := "types.ModuleName", coins := "sdk.NewCoins(sdk.NewCoin(asset.Token.Denom, asset.Token.Amount.Sub(balance.Amount)))", guards := "!pool.PoolParams.UseOracle && asset.Token.Denom == balance.Denom && asset.Token.Amount.GT(balance.Amount)" }, .migrationOnly),
  ({ pkg := "x/amm/keeper", file := "pool.go", fn := "Keeper.MatchAmmBalances", callee := "BurnCoins", recv := "x/amm/types.BankKeeper", modArg := "types.ModuleName", coins := "sdk.NewCoins(sdk.NewCoin(asset.Token.Denom, balance.Amount.Sub(asset.Token.Amount)))", guards := "!pool.PoolParams.UseOracle && asset.Token.Denom == balance.Denom && asset.Token.Amount.LT(balance.Amount)" }, .migrationOnly),
  ({ pkg := "x/amm/keeper", file := "pool_share.go", fn := "Keeper.MintPoolShareToAccount", callee := "MintCoins", recv := "x/amm/types.BankKeeper", modArg := "types.ModuleName", coins := "amt", guards := "" }, .shareMint),
  ({ pkg := "x/amm/keeper", file := "pool_share.go", fn := "Keeper.BurnPoolShareFromAccount", callee := "BurnCoins", recv := "x/amm/types.BankKeeper", modArg := "types.ModuleName", coins := "coins", guards := "" }, .shareBurn),
  ({ pkg := "x/burner/keeper", file := "burn.go", fn := "Keeper.burnCoins", callee := "BurnCoins", recv := "x/burner/types.BankKeeper", modArg := "types.ModuleName", coins := "coins", guards := "" }, .burner),
  ({ pkg := "x/commitment/keeper", file := "keeper.go", fn := "Keeper.MintCoins", callee := "MintCoins", recv := "x/commitment/types.BankKeeper", modArg := "moduleName", coins := "amt", guards := "" }, .commitmentWrapper),
  ({ pkg := "x/commitment/keeper", file := "keeper.go", fn := "Keeper.BurnCoins", callee := "BurnCoins", recv := "x/commitment/types.BankKeeper", modArg := "moduleName", coins := "amt", guards := "" }, .commitmentWrapper),
  ({ pkg := "x/commitment/keeper", file := "msg_server_claim_vesting.go", fn := "Keeper.ClaimVesting", callee := "MintCoins", recv := "x/commitment/types.BankKeeper", modArg := "types.ModuleName", coins := "elysCoins", guards := "newClaims.IsAllPositive() && newClaims.AmountOf(ptypes.Elys).IsPositive()" }, .vestingRelease),
  ({ pkg := "x/commitment/keeper", file := "msg_server_vest_now.go", fn := "msgServer.VestNow", callee := "MintCoins", recv := "x/commitment/types.BankKeeper", modArg := "types.ModuleName", coins := "withdrawCoins", guards := "vestingInfo.VestingDenom == ptypes.Elys" }, .vestingRelease),
  ({ pkg := "x/estaking/keeper", file := "abci.go", fn := "Keeper.UpdateStakersRewards", callee := "MintCoins", recv := "x/estaking/types.CommitmentKeeper", modArg := "ccvconsumertypes.ConsumerToSendToProviderName", coins := "sdk.NewCoins(sdk.NewCoin(ptypes.Eden, providerEdenAmount))", guards := "" }, .virtualMint),
  ({ pkg := "x/estaking/keeper", file := "abci.go", fn := "Keeper.UpdateStakersRewards", callee := "MintCoins", recv := "x/estaking/types.CommitmentKeeper", modArg := "ccvconsumertypes.ConsumerRedistributeName", coins := "consumerCoins.Sort()", guards := "" }, .virtualMint),
  ({ pkg := "x/masterchef/keeper", file := "abci.go", fn := "Keeper.UpdateLPRewards", callee := "MintCoins", recv := "x/masterchef/types.CommitmentKeeper", modArg := "types.ModuleName", coins := "sdk.Coins{sdk.NewCoin(ptypes.Eden, newEdenAllocatedForPool.TruncateInt())}", guards := "pool.EnableEdenRewards && !edenPriceIsZero && newEdenAllocatedForPool.TruncateInt().IsPositive()" }, .virtualMint),
  ({ pkg := "x/stablestake/keeper", file := "msg_server_bond.go", fn := "msgServer.Bond", callee := "MintCoins", recv := "x/stablestake/types.BankKeeper", modArg := "types.ModuleName", coins := "shareCoins", guards := "" }, .shareMint),
  ({ pkg := "x/stablestake/keeper", file := "msg_server_unbond.go", fn := "msgServer.Unbond", callee := "BurnCoins", recv := "x/stablestake/types.BankKeeper", modArg := "types.ModuleName", coins := "shareCoins", guards := "" }, .shareBurn)
]

/-- which classes of denom a site of the given kind can put into circulation through x/bank during block processing -/
def mayMint : SiteCls → Cls → Bool
  | .shareMint, .share => true
  | .vestingRelease, .native => true
  | _, _ => false

/-- the regenerated table IS the table that was read: a new call site, a call site that moved, or one whose module or coins
argument now reads differently breaks this theorem (and with it the check) until the expectation has been re-read -/
theorem sites_as_expected : Elys.Gen.MintBurn.sites = expectedSites.map (·.1) := by decide

/-- no call site that block processing can reach mints an externally issued asset (nor a virtual one through x/bank) -/
theorem no_site_mints_external :
    ∀ sc ∈ expectedSites, sc.1.callee = "MintCoins" → mayMint sc.2 .external = false ∧ mayMint sc.2 .virtualDenom = false := by decide

/-- the only site that can destroy an externally issued asset in block processing is the burner (the known finding) -/
theorem only_burner_burns_external :
    ∀ sc ∈ expectedSites, sc.1.callee = "BurnCoins" → sc.2 = .shareBurn ∨ sc.2 = .burner ∨ sc.2 = .commitmentWrapper ∨ sc.2 = .migrationOnly := by decide

end Elys.Supply.C15
