/-
C11 — source tie (see Props/C03Src.lean for what that is): the amount x/accountedpool/keeper/hooks_perpetual.go `PerpetualUpdates`
writes as an asset's accounted balance — the body of its loop over the pool's assets, for an arbitrary asset, up to the statement
that stores the amount — as the source has it now = the model's `refreshPerp` (on which the C11 theorems are stated):
amm balance + liabilities − custody, with the take-profit terms only under the governance switch.
Property theorems only.
-/
import ElysModel.Gen.Arith.accountedAmount
import ElysModel.Gen.Arith.Table
import ElysModel.Ledger.Accounted
namespace Elys.Accounted.C11Src
open Elys Elys.Amm Elys.Accounted

/-- with the take-profit switch off (its default; the assumption under which C11 is stated) the amount stored is the amm balance
handed in + total liabilities − total custody, for all values, whatever the take-profit books hold. -/
theorem gen_accounted_amount (amm liab cust tpc tpl : Int) :
    Gen.Arith.accountedAmount false amm false liab cust tpc tpl = .ok (amm + liab - cust) := rfl

/-- and that is the model's `refreshPerp` of a state with those books, given the same amm snapshot. -/
theorem gen_refreshPerp (s : St) (snap tpc tpl : Int) :
    Gen.Arith.accountedAmount false snap false s.liab s.cust tpc tpl = .ok (refreshPerp s snap).tot := rfl

/-- with the switch on, the documented other formula (the reason C11 is stated for the default only). -/
theorem gen_accounted_amount_tp (amm liab cust tpc tpl : Int) :
    Gen.Arith.accountedAmount true amm false liab cust tpc tpl = .ok (amm + liab - cust + tpc - tpl) := rfl

/-- an asset the amm pool does not hold stops the refresh with an error (nothing is written). -/
theorem gen_accounted_no_balance (flag : Bool) (amm liab cust tpc tpl : Int) :
    ∃ e, Gen.Arith.accountedAmount flag amm true liab cust tpc tpl = .error e := ⟨_, rfl⟩

/-- what is read: the balance of THIS asset in the amm pool handed in (not re-read from the store), and the perpetual pool's
four totals for THIS asset. -/
theorem gen_free_accountedAmount : Gen.Arith.freeOf "accountedAmount" =
    ["#2.GetAmmPoolBalance(asset.Denom)", "#2.GetAmmPoolBalance(asset.Denom)#err", "#3.GetPerpetualPoolBalances(asset.Denom)#0",
     "#3.GetPerpetualPoolBalances(asset.Denom)#1", "#3.GetPerpetualPoolBalances(asset.Denom)#2", "#3.GetPerpetualPoolBalances(asset.Denom)#3"] := by decide

end Elys.Accounted.C11Src
