/-
C02 — LP share supply, pool total shares and committed shares always agree.
Property theorems only.
-/
import ElysModel.Lemmas.Commit
namespace Elys.Commit.C02

/-- for a share denom `d`: pool's TotalShares = bank supply = Σ_a committed = custody balance. -/
def SharesOk (s : St) (d : String) : Prop :=
  (view s d).pool = (view s d).supply ∧ (view s d).supply = (view s d).sumC ∧ (view s d).custody = (view s d).sumC

/-- the denom an op acts on -/
def opDenom : Op → String
  | .commitLiquid _ d _ | .uncommit _ d _ | .commitClaimed _ d _ | .burnBoost _ d _
  | .depositClaimed _ d _ | .claimedDelta _ d _ | .mintShares _ d _ | .burnShares _ d _ => d

def isShareOp : Op → Bool
  | .mintShares .. | .burnShares .. => true
  | _ => false

/-- every successful macro-op preserves the agreement for share denom `d`, provided the only ops that touch
`d` are the paired mint/burn macro-ops (call-site fact: shares are committed only by `MintPoolShareToAccount`
and uncommitted only on exit/unbond; `MsgUncommitTokens` accepts Eden/EdenB only). -/
theorem step_shares {s s' : St} {op : Op} (d : String) (hd : isVirtual d = false) (hi : SharesOk s d)
    (hop : opDenom op = d → isShareOp op = true) (h : step s op = .ok s') : SharesOk s' d := by
  unfold SharesOk at *
  cases op with
  | commitLiquid a d' x =>
    by_cases e : d' = d
    · exact absurd (hop e) (by simp [isShareOp])
    · rw [view_commitLiquid h d]; simp [e]; exact hi
  | uncommit a d' x =>
    by_cases e : d' = d
    · exact absurd (hop e) (by simp [isShareOp])
    · rw [view_uncommit h d]; simp [e]; exact hi
  | commitClaimed a d' x =>
    by_cases e : d' = d
    · exact absurd (hop e) (by simp [isShareOp])
    · rw [view_commitClaimed h d]; simp [e]; exact hi
  | burnBoost a d' x =>
    by_cases e : d' = d
    · exact absurd (hop e) (by simp [isShareOp])
    · obtain ⟨c1, c2, _, hv⟩ := view_burnBoost h d
      rw [hv]; simp [e]; exact hi
  | depositClaimed a d' x =>
    by_cases e : d' = d
    · exact absurd (hop e) (by simp [isShareOp])
    · rw [view_depositClaimed h d]; simp [e]; exact hi
  | claimedDelta a d' x =>
    by_cases e : d' = d
    · exact absurd (hop e) (by simp [isShareOp])
    · rw [view_claimedDelta h d]; simp [e]; exact hi
  | mintShares a d' x =>
    rw [view_mintShares h d]; split <;> simp_all <;> omega
  | burnShares a d' x =>
    by_cases e : d' = d
    · subst e; rw [view_burnShares hd h d']; simp; omega
    · have : step s (.uncommit a d' x) = uncommit s a d' x := rfl
      simp only [step, burnShares] at h
      split at h
      · simp at h
      · rename_i s1 h1
        simp only [Except.ok.injEq] at h; subst h
        have hv := view_uncommit h1 d
        simp only [e, if_false] at hv
        simp only [view, sumCommitted, sumClaimed, FMap.get_add, e, if_false, View.mk.injEq] at hv hi ⊢
        omega

/-- lifted to histories. -/
theorem run_shares (d : String) (hd : isVirtual d = false) (s : St) (ops : List Op) (hi : SharesOk s d)
    (hop : ∀ op ∈ ops, opDenom op = d → isShareOp op = true) : SharesOk (run s ops) d := by
  induction ops generalizing s with
  | nil => exact hi
  | cons op ops ih =>
    apply ih _ _ (fun o h => hop o (List.mem_cons_of_mem _ h))
    unfold stepTx
    cases h : step s op with
    | error e => exact hi
    | ok s' => exact step_shares d hd hi (hop op (List.mem_cons_self ..)) h

/-- shares are created only by joining (mint) and destroyed only by exiting (burn): any op that changes the
supply of `d` is one of the two paired macro-ops on `d`. -/
theorem only_join_exit {s s' : St} {op : Op} (d : String) (h : step s op = .ok s')
    (hch : (view s' d).supply ≠ (view s d).supply) : isShareOp op = true ∧ opDenom op = d := by
  cases op with
  | commitLiquid a d' x => rw [view_commitLiquid h d] at hch; split at hch <;> simp_all
  | uncommit a d' x => rw [view_uncommit h d] at hch; split at hch <;> (try split at hch) <;> simp_all
  | commitClaimed a d' x => rw [view_commitClaimed h d] at hch; split at hch <;> simp_all
  | burnBoost a d' x =>
    obtain ⟨c1, c2, _, hv⟩ := view_burnBoost h d
    rw [hv] at hch; split at hch <;> simp_all
  | depositClaimed a d' x => rw [view_depositClaimed h d] at hch; split at hch <;> simp_all
  | claimedDelta a d' x => rw [view_claimedDelta h d] at hch; split at hch <;> simp_all
  | mintShares a d' x =>
    rw [view_mintShares h d] at hch
    by_cases e : d' = d
    · exact ⟨rfl, e⟩
    · simp [e] at hch
  | burnShares a d' x =>
    by_cases e : d' = d
    · exact ⟨rfl, e⟩
    · exfalso; apply hch
      simp only [step, burnShares] at h
      split at h
      · simp at h
      · rename_i s1 h1
        simp only [Except.ok.injEq] at h; subst h
        have hv := view_uncommit h1 d
        simp only [e, if_false] at hv
        simp only [view, FMap.get_add, e, if_false, View.mk.injEq] at hv ⊢
        omega

/-- non-vacuity: a reachable non-trivial state meets the hypothesis. -/
example : SharesOk (run {} [.mintShares "alice" "amm/pool/1" 1000, .mintShares "bob" "amm/pool/1" 50, .burnShares "alice" "amm/pool/1" 400]) "amm/pool/1" := by
  unfold SharesOk; decide

end Elys.Commit.C02
