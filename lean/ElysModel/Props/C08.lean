/-
C08 — leveraged-LP pool totals equal the sum of open positions; each position's amount equals the shares committed
at its own address; the counter equals the number of stored positions; a full close leaves nothing behind.
Property theorems only.
-/
import ElysModel.Lemmas.Ids
import ElysModel.Ledger.LevLp
namespace Elys.LevLp.C08
open FMap

local macro "keysplit" : tactic => `(tactic| (split <;> first | (rename_i hk; subst hk) | skip))

def Inv (s : St) : Prop :=
  (∀ p, s.poolLev.get p = sumPos s p) ∧ (∀ k, s.posLev.get k = s.committed.get k) ∧ s.count = s.live.total ∧
  (∀ k, s.live.get k = 0 ∨ s.live.get k = 1) ∧ (∀ k, s.live.get k = 0 → s.posLev.get k = 0)

theorem sumPos_add (m : FMap PK) (p id q : Nat) (x : Int) :
    sumIf (fun k => k.1 == q) (m.add (p, id) x) = sumIf (fun k => k.1 == q) m + (if p = q then x else 0) := by
  rw [sumIf_add]; simp

/-- every successful macro-op preserves the three agreements, for all share amounts. -/
theorem step_inv {s s' : St} {op : Op} (hi : Inv s) (h : step s op = .ok s') : Inv s' := by
  obtain ⟨h1, h2, h3, h4, h5⟩ := hi
  cases op with
  | «open» p id x =>
    simp only [step, openPos] at h
    split at h; · simp at h
    split at h; · simp at h
    split at h; · simp at h
    rename_i hx hl hz
    simp only [Except.ok.injEq] at h; subst h
    have hl0 : s.live.get (p, id) = 0 := by omega
    refine ⟨fun q => ?_, fun k => ?_, ?_, fun k => ?_, fun k hk => ?_⟩
    · have := h1 q; simp only [sumPos, sumPos_add, get_add] at *; split <;> simp_all
    · have := h2 k; simp only [get_add]; keysplit <;> omega
    · simp only [total_set]; omega
    · simp only [get_set]; keysplit
      · right; rfl
      · exact h4 k
    · by_cases e : (p, id) = k
      · subst e; simp [get_set] at hk
      · simp only [get_set, get_add, e, if_false] at hk ⊢; exact h5 k hk
  | consolidate p id x =>
    simp only [step, consolidate] at h
    split at h; · simp at h
    split at h; · simp at h
    rename_i hx hl
    simp only [Except.ok.injEq] at h; subst h
    refine ⟨fun q => ?_, fun k => ?_, h3, h4, fun k hk => ?_⟩
    · have := h1 q; simp only [sumPos, sumPos_add, get_add] at *; split <;> simp_all
    · have := h2 k; simp only [get_add]; keysplit <;> omega
    · by_cases e : (p, id) = k
      · subst e; simp only at hk; omega
      · simp only [get_add, e, if_false]; exact h5 k hk
  | close p id lp =>
    simp only [step, close] at h
    split at h; · simp at h
    split at h; · simp at h
    split at h; · simp at h
    rename_i hx hl hle
    split at h
    · rename_i hz
      simp only [Except.ok.injEq] at h; subst h
      refine ⟨fun q => ?_, fun k => ?_, ?_, fun k => ?_, fun k hk => ?_⟩
      · have := h1 q; simp only [sumPos, sumPos_add, get_add] at *; split <;> simp_all <;> omega
      · have := h2 k; simp only [get_add]; keysplit <;> omega
      · simp only [total_set]; omega
      · simp only [get_set]; keysplit
        · left; rfl
        · exact h4 k
      · by_cases e : (p, id) = k
        · subst e; simp only [get_add, if_true]; simp only [get_add, if_true] at hz; omega
        · simp only [get_set, get_add, e, if_false] at hk ⊢; exact h5 k hk
    · rename_i hnz
      simp only [Except.ok.injEq] at h; subst h
      refine ⟨fun q => ?_, fun k => ?_, h3, h4, fun k hk => ?_⟩
      · have := h1 q; simp only [sumPos, sumPos_add, get_add] at *; split <;> simp_all <;> omega
      · have := h2 k; simp only [get_add]; keysplit <;> omega
      · by_cases e : (p, id) = k
        · subst e; simp only at hk; omega
        · simp only [get_add, e, if_false]; exact h5 k hk

theorem run_inv (s : St) (ops : List Op) (hi : Inv s) : Inv (run s ops) := by
  induction ops generalizing s with
  | nil => exact hi
  | cons op ops ih =>
    apply ih
    unfold stepTx
    cases h : step s op with
    | error e => exact hi
    | ok s' => exact step_inv hi h

/-- closing a position in full removes it and leaves none of its shares behind. -/
theorem full_close_clean {s s' : St} {p id : Nat} (hi : Inv s) (h : step s (.close p id (s.posLev.get (p, id))) = .ok s') :
    s'.live.get (p, id) = 0 ∧ s'.posLev.get (p, id) = 0 ∧ s'.committed.get (p, id) = 0 := by
  simp only [step, close] at h
  split at h; · simp at h
  split at h; · simp at h
  split at h; · simp at h
  have hz : (s.posLev.add (p, id) (-(s.posLev.get (p, id)))).get (p, id) = 0 := by
    simp only [get_add, if_true]; omega
  simp only [hz, if_true, Except.ok.injEq] at h; subst h
  have hc := hi.2.1 (p, id)
  refine ⟨by simp only [get_set, if_true], by simp only [get_add, if_true]; omega, by simp only [get_add, if_true]; omega⟩

/-- non-vacuity -/
example : Inv (run {} [.open 3 1 500, .open 3 2 70, .consolidate 3 1 30, .close 3 2 20, .close 3 1 530, .open 4 3 9]) :=
  run_inv _ _ ⟨fun _ => by simp [sumPos, sumIf, FMap.get], fun _ => by simp [FMap.get], by simp [total, sumIf], fun _ => by simp [FMap.get], fun _ _ => by simp [FMap.get]⟩

/-! ### ids of stored positions (the store key and the position's own account is derived from the id) -/

theorem ids_run_inv (s : Ids.St) (ops : List Ids.Op) (hi : Ids.InvLast s) (hr : ∀ op ∈ ops, Ids.repaired op) :
    Ids.InvLast (Ids.runLast s ops) := by
  induction ops generalizing s with
  | nil => exact hi
  | cons op ops ih =>
    exact ih _ (Ids.stepLast_inv hi (hr op (List.mem_cons_self ..))) (fun o ho => hr o (List.mem_cons_of_mem _ ho))

/-- over every history of opens, closes and export / import restarts of the module's genesis (counter set to the larger of the
number of imported positions and the highest imported id — the rule since 41f14ef), no stored position has an id above the
counter and no id is stored twice … -/
theorem ids_never_reused (ops : List Ids.Op) (hr : ∀ op ∈ ops, Ids.repaired op) : Ids.InvLast (Ids.runLast {} ops) :=
  ids_run_inv {} ops ⟨fun _ h => by simp at h, List.nodup_nil⟩ hr

/-- … hence the id the next open hands out belongs to no stored position -/
theorem next_id_fresh (s : Ids.St) (hi : Ids.InvLast s) : s.ctr + 1 ∉ s.live :=
  fun hm => by have := hi.1 _ hm; omega

/-- WITNESS (before 41f14ef): three opens, the first position is closed, the module is restarted from its exported genesis with the
counter set to the NUMBER of positions (2): the next open takes id 3, which a stored position still has. -/
theorem import_by_length_witness :
    (Ids.runLast {} [.create, .create, .create, .remove 1, .reimport .byLength, .create]).live = [3, 3, 2] ∧
    (Ids.runLast {} [.create, .create, .create, .remove 1, .reimport .byMax, .create]).live = [4, 3, 2] := by
  constructor <;> decide

end Elys.LevLp.C08
