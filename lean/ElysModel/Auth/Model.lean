/-
Authorisation of messages (C17). Core-only.

A message handler is `guard ; body`. What the extractor (harness/cmd/extract) regenerates per handler is
the record `Handler`; the semantics below says what a guarded handler does with a message whose signer
field holds `signer` when the keeper's authority is `authority`. `body` is arbitrary (any state
transformer that may fail): the theorems in Props/C17.lean quantify over it.
-/
namespace Elys.Auth

/-- one method of a module's msgServer, as read from the Go source. -/
structure Handler where
  module : String
  method : String
  msgType : String
  /-- the generated message struct has a field `Authority : string` -/
  hasAuthorityField : Bool
  /-- the message field the handler compares with the keeper's authority ("" = it compares none) -/
  authorityFieldName : String
  /-- that comparison guards an error return before the first statement that can write state -/
  guardedBeforeWrite : Bool
  /-- the field the proto file declares as `cosmos.msg.v1.signer` (Go spelling) -/
  signerField : String
  deriving Repr, DecidableEq, Inhabited

inductive Err where
  /-- the ante handler: the account named in the message's signer field did not sign the transaction -/
  | signature
  /-- `govtypes.ErrInvalidSigner`: the handler's own guard -/
  | invalidSigner
  /-- owner-scoped handlers -/
  | notFound
  | unauthorized
  /-- any failure of the handler's body -/
  | body (code : Nat)
  deriving Repr, DecidableEq, Inhabited

variable {σ : Type}

/-- `guard ; body`. `signer` is the content of the message field the guard compares (for a handler in
the table, the field that is also the transaction signer). -/
def runHandler (h : Handler) (signer authority : String) (body : σ → Except Err σ) (s : σ) : Except Err σ :=
  if h.guardedBeforeWrite then
    if signer = authority then body s else .error .invalidSigner
  else body s

/-- delivery of a transaction carrying the message: the ante handler first requires that the account
named in the signer field (`fieldValue`) is the one that signed (`txSigner`). -/
def deliver (h : Handler) (txSigner fieldValue authority : String) (body : σ → Except Err σ) (s : σ) : Except Err σ :=
  if txSigner = fieldValue then runHandler h fieldValue authority body s else .error .signature

/-- what the chain keeps: a failed message's writes are discarded (baseapp runs it on a branch). -/
def commit (s : σ) : Except Err σ → Bool × σ
  | .ok s' => (true, s')
  | .error _ => (false, s)

/-- owner-scoped handlers: the object is looked up (`none` = no such object for this key), its owner is
compared with the message's sender field, and only then does the body run. Handlers that key the
lookup by (sender, id) fall under `none` for a non-owner. -/
def runOwned (owner : Option String) (sender : String) (body : σ → Except Err σ) (s : σ) : Except Err σ :=
  match owner with
  | none => .error .notFound
  | some o => if sender = o then body s else .error .unauthorized

def deliverOwned (owner : Option String) (txSigner fieldValue : String) (body : σ → Except Err σ) (s : σ) : Except Err σ :=
  if txSigner = fieldValue then runOwned owner fieldValue body s else .error .signature

def isOk : Except Err σ → Bool
  | .ok _ => true
  | .error _ => false

/-- governance-gated as far as the source shows: an `Authority` field, or a comparison with the keeper's authority. -/
def Handler.gated (h : Handler) : Bool := h.hasAuthorityField || h.authorityFieldName != ""

def Handler.key (h : Handler) : String × String := (h.module, h.method)

end Elys.Auth
