/-
C19 (partial model): the two pieces of determinism that are logic rather than runtime.
(i) The one consensus-path `range` over a Go map — x/burner `BurnTokensForAllDenoms` — as a fold over the map's entries in
    whatever order the runtime yields them.
(ii) The store discipline: a state is persistent × transient × keeper-memory; `commit` clears the transient store; a restart
    also drops keeper memory; a block reads and writes persistent and transient stores only.
Core-only.
-/
import ElysModel.Data.FMap
namespace Elys.Determinism

/-- burn every (denom, amount) entry: supply −= amount -/
def burnAll (supply : FMap String) (entries : List (String × Int)) : FMap String :=
  entries.foldl (fun s e => s.add e.1 (-e.2)) supply

def burnedOf (d : String) : List (String × Int) → Int
  | [] => 0
  | e :: es => (if e.1 = d then e.2 else 0) + burnedOf d es

structure State (P T M : Type) where
  p : P
  t : T
  m : M

variable {P T M B : Type}

/-- a block transition that reads and writes the persistent and the transient store only -/
def blockStep (step : P → T → B → P × T) (s : State P T M) (b : B) : State P T M :=
  { p := (step s.p s.t b).1, t := (step s.p s.t b).2, m := s.m }

def commit (t0 : T) (s : State P T M) : State P T M := { s with t := t0 }
def restart (t0 : T) (m0 : M) (s : State P T M) : State P T M := { s with t := t0, m := m0 }

def runBlocks (step : P → T → B → P × T) (t0 : T) (s : State P T M) (bs : List B) : State P T M :=
  bs.foldl (fun acc b => commit t0 (blockStep step acc b)) s

/-! (iii) A block transition that MAY read and write process memory (package-level variables, caches, a big.Int shared by
two values): what a long-running node carries from block to block, and what a node started afresh does not have. -/

/-- one block on a node that keeps its memory -/
def blockStepM (step : P → T → M → B → (P × T) × M) (s : State P T M) (b : B) : State P T M :=
  { p := (step s.p s.t s.m b).1.1, t := (step s.p s.t s.m b).1.2, m := (step s.p s.t s.m b).2 }

/-- a node that never stops -/
def runKeep (step : P → T → M → B → (P × T) × M) (t0 : T) (s : State P T M) (bs : List B) : State P T M :=
  bs.foldl (fun acc b => commit t0 (blockStepM step acc b)) s

/-- a node that executes every block in a fresh process: memory starts from `m0` each time (harness/c19.go, fourth replica) -/
def runFresh (step : P → T → M → B → (P × T) × M) (t0 : T) (m0 : M) (s : State P T M) (bs : List B) : State P T M :=
  bs.foldl (fun acc b => commit t0 (blockStepM step { acc with m := m0 } b)) s

/-- the stores a block produces do not depend on what is in memory -/
def MemIndependent (step : P → T → M → B → (P × T) × M) : Prop :=
  ∀ p t m m' b, (step p t m b).1 = (step p t m' b).1

end Elys.Determinism
