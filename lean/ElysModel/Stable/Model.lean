/-
L1 model of the x/stablestake vault (one deposit denom, one borrower record):
`GetRedemptionRate`, `Bond`, `Unbond` (msg_server_{bond,unbond}.go, params.go) and the keeper's
`Borrow`, `Repay`, `UpdateInterestStacked`, `GetInterest` fallback branch (debt.go), on raw
`LegacyDec` integers (value × 10^18), mirroring the Go code as it is.  Core-only.

What the Go code does, in its order:
* `GetRedemptionRate` = 0 when the bank supply of `stablestake/share` is 0, else
  `TotalValue.ToLegacyDec().Quo(supply.ToLegacyDec())`.
* `Bond a`: read `Params` (keeps the struct), read the rate, move `a` from the creator to the vault,
  replace a zero rate by 1, mint `a.ToLegacyDec().Quo(rate).RoundInt()` shares (banker's rounding,
  on top of `Quo`'s own two roundings), commit them, write back `Params` with `TotalValue + a`.
* `Unbond s`: read `Params`, read the rate (NOT replaced when zero), uncommit `s` shares from the
  creator, burn them, pay `s.ToLegacyDec().Mul(rate).RoundInt()` out of the vault's bank balance (the
  only liquidity test is the bank's own "insufficient funds"; a zero payout is an invalid coin and fails),
  write back `Params` with `TotalValue − payout`.
* `Borrow amt`: refuse when `(TotalValue − cash + amt).ToLegacyDec() > TotalValue·9/10` (both sides
  `LegacyDec`; `Params.MaxLeverageRatio` is NOT read here — only x/leveragelp's open reads it); then
  accrue the borrower's interest (adds it to `TotalValue`), add `amt` to the principal, pay it out.
  The test uses `TotalValue` and the balance from BEFORE the accrual and the transfer.
* `Repay amt`: take `amt` from the borrower, accrue, pay interest first, then principal; fail when the
  principal would go negative; delete the record when the principal reaches zero.
-/
import ElysModel.Num.Dec
namespace Elys.Stable

structure St where
  tv       : Int   -- Params.TotalValue
  supply   : Int   -- bank supply of "stablestake/share"
  cash     : Int   -- vault module account's deposit-denom balance
  borrowed : Int   -- Debt.Borrowed (the single borrower the harness uses; Σ in general)
  stacked  : Int   -- Debt.InterestStacked
  paid     : Int   -- Debt.InterestPaid
deriving Repr, DecidableEq, Inhabited

inductive Err
  | invalid            -- ValidateBasic / invalid (zero) coin
  | insufficientFunds  -- x/bank: spendable balance too small
  | insufficientShares -- x/commitment: fewer committed shares than asked
  | maxBorrow          -- ErrMaxBorrowAmount
  | negativeBorrowed   -- ErrNegativeBorrowed
  | panicNegCoin       -- sdk.NewCoin on a negative amount
deriving Repr, DecidableEq, Inhabited

/-- `GetRedemptionRate` (raw Dec). -/
def rate (tv supply : Int) : Int :=
  if supply = 0 then 0 else Dec.quo (Dec.ofInt tv) (Dec.ofInt supply)

/-- shares minted by `Bond` for `a` at rate `r` (the zero rate is replaced by one). -/
def sharesFor (a r : Int) : Int :=
  let r0 := if r = 0 then P else r
  Dec.roundInt (Dec.quo (Dec.ofInt a) r0)

/-- deposit-denom amount paid by `Unbond` for `s` shares at rate `r`. -/
def payoutFor (s r : Int) : Int := Dec.roundInt (Dec.mul (Dec.ofInt s) r)

/-- `Bond a` by a creator holding `bal` of the deposit denom. Returns the new state and the shares minted. -/
def bond (s : St) (a bal : Int) : Except Err (St × Int) :=
  let params := s.tv                       -- params := k.GetParams(ctx)
  let r := rate s.tv s.supply              -- redemptionRate := k.GetRedemptionRate(ctx)
  if a ≤ 0 then .error .invalid            -- ValidateBasic
  else if bal < a then .error .insufficientFunds
  else
    let m := sharesFor a r
    if m < 0 then .error .panicNegCoin
    else .ok ({ s with cash := s.cash + a, supply := s.supply + m, tv := params + a }, m)

/-- `Unbond sh` by a creator with `held` committed shares. Returns the new state and the payout. -/
def unbond (s : St) (sh held : Int) : Except Err (St × Int) :=
  let params := s.tv
  let r := rate s.tv s.supply
  if sh ≤ 0 then .error .invalid
  else if held < sh then .error .insufficientShares
  else
    let p := payoutFor sh r                -- rate read BEFORE the burn
    if p < 0 then .error .panicNegCoin
    else if p = 0 then .error .invalid     -- sdk.Coins{0uusdc} is not a valid coin set
    else if s.cash < p then .error .insufficientFunds
    else .ok ({ s with supply := s.supply - sh, cash := s.cash - p, tv := params - p }, p)

/-- the two sides of `Borrow`'s test, as `LegacyDec` raw integers. -/
def borrowedAfter (s : St) (amt : Int) : Int := Dec.ofInt (s.tv - s.cash) + Dec.ofInt amt
def maxAllowed (s : St) : Int := Dec.quo (Dec.mul (Dec.ofInt s.tv) (Dec.ofInt 9)) (Dec.ofInt 10)

/-- `UpdateInterestStacked` with the (witnessed or computed) new interest `i`. -/
def accrue (s : St) (i : Int) : St := { s with stacked := s.stacked + i, tv := s.tv + i }

/-- `Borrow amt`; `i` is the interest `UpdateInterestAndGetDebt` adds inside the call. -/
def borrow (s : St) (amt i : Int) : Except Err St :=
  if borrowedAfter s amt > maxAllowed s then .error .maxBorrow
  else
    let s1 := accrue s i
    let s2 := { s1 with borrowed := s1.borrowed + amt }
    if amt ≤ 0 then .error .invalid
    else if s2.cash < amt then .error .insufficientFunds
    else .ok { s2 with cash := s2.cash - amt }

/-- `Repay amt` by a borrower holding `bal`; `i` as in `borrow`. -/
def repay (s : St) (amt i bal : Int) : Except Err St :=
  if amt ≤ 0 then .error .invalid
  else if bal < amt then .error .insufficientFunds
  else
    let s1 := accrue { s with cash := s.cash + amt } i
    let due := s1.stacked - s1.paid
    let interestPay := if due > amt then amt else due
    let principal := s1.borrowed - (amt - interestPay)
    if principal < 0 then .error .negativeBorrowed
    else if principal = 0 then .ok { s1 with borrowed := 0, stacked := 0, paid := 0 }   -- DeleteDebt
    else .ok { s1 with borrowed := principal, paid := s1.paid + interestPay }

/-- `GetInterest`, the branch taken when no per-block interest records exist:
`borrowed · InterestRate · Δt / (86400·365)`, each step a `LegacyDec` op, then `RoundInt`. -/
def interestSimple (borrowed interestRate dt : Int) : Int :=
  Dec.roundInt (Dec.quo (Dec.mul (Dec.mul (Dec.ofInt borrowed) interestRate) (Dec.ofInt dt)) (Dec.ofInt 31536000))

inductive Op
  | bond (a bal : Int)
  | unbond (sh held : Int)
  | borrow (amt i : Int)
  | repay (amt i bal : Int)
  | accrue (i : Int)
deriving Repr, DecidableEq, Inhabited

/-- one operation; a failed operation leaves the state unchanged (tx rollback). -/
def step (s : St) : Op → St
  | .bond a bal => match bond s a bal with | .ok (s', _) => s' | .error _ => s
  | .unbond sh held => match unbond s sh held with | .ok (s', _) => s' | .error _ => s
  | .borrow amt i => match borrow s amt i with | .ok s' => s' | .error _ => s
  | .repay amt i bal => match repay s amt i bal with | .ok s' => s' | .error _ => s
  | .accrue i => accrue s i

def run (s : St) (ops : List Op) : St := ops.foldl step s

def init : St := { tv := 0, supply := 0, cash := 0, borrowed := 0, stacked := 0, paid := 0 }

end Elys.Stable
