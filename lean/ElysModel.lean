import ElysModel.Num.Dec
import ElysModel.Data.FMap
import ElysModel.Vesting.Model
import ElysModel.Lemmas.Vesting
import ElysModel.Props.C14
import ElysModel.Drv.C14
