import ElysModel.Drv.C14
import ElysModel.Drv.CommitH
open Elys.Drv

def main (args : List String) : IO UInt32 := do
  let stdin ← IO.getStdin
  let stdout ← IO.getStdout
  match args with
  | ["C14"] => loop stdin stdout Elys.Drv.C14.handle {} 0; return 0
  | ["C12"] => loop stdin stdout (Elys.Drv.CommitH.handle "C12") {} 0; return 0
  | ["C02"] => loop stdin stdout (Elys.Drv.CommitH.handle "C02") {} 0; return 0
  | _ => IO.eprintln "usage: driver <property>"; return 2
