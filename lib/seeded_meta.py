#!/usr/bin/env python3
"""Writes /verif/seeded/<id>/meta.json for every stored seeded change from the table below (what each change is, what it
needs to manifest, what was run against it and which check clause reports it). The table is filled in by hand after
`lib/seeded_confirm.sh` (independent confirmation on a scratch worktree) and `lib/teeth.sh` (the registered checks run
against a scratch worktree with the change applied) have been run."""
import json, os, sys

CONFIRM = ("lib/seeded_confirm.sh {p}: fresh scratch worktree of /repo under /tmp, `git apply patch.diff`, `go build ./...`, "
           "`go test -vet=off -count=1` of every touched module (existing tests, unedited), then the demo test with the change "
           "(must fail) and after `git apply -R` (must pass); worktree removed. Result in confirm.log.")
TEETH = ("lib/teeth.sh sd-{id} seeded/{id}/patch.diff {p}: scratch worktree with the change, `VERIF_REPO=<worktree> "
         "VERIF_OUTDIR=/tmp/teeth-out/... ./check {p} --tier quick`; worktree removed.")

T = {
 "C01-1": dict(
    change="x/amm/keeper/fee.go SwapFeesToRevenueToken: guard `!tokenOutAmount.IsPositive()` removed",
    needs="oracle pool with a positive swap fee; swap whose input is not the fee denom; a dust fee whose conversion to the fee "
          "denom truncates to exactly 0 (the nested conversion's pool update lands on the in-memory pool the outer swap keeps using)",
    caught_by="C01.reserve_eq_held, C01.liquidity_eq_sum and the poolBook correspondence, in scenario c01-dust-fee-sweep",
    history="MISSED by the first version of the check (random histories never hit a fee conversion that truncates to 0 on a pool "
            "whose state had drifted); scenario c01-dust-fee-sweep (fresh balanced oracle pool, 47 swaps with fees of 1..12 base "
            "units) and a small-fee swap stream were added; caught since"),
 "C02-1": dict(
    change="x/amm/types/pool_exit_pool.go ExitPool: early return when the exiting coins are empty",
    needs="an exit of so few shares that every asset's payout truncates to 0 (dust exit): shares are burnt but pool total shares are not reduced",
    caught_by="C02.shares_agree (supply vs pool total shares) in hist mode (dust exits in the grammar)",
    history="caught at first run"),
 "C04-1": dict(
    change="x/amm/keeper/abci.go ExecuteSwapRequests: commits the surviving request of an opposite-direction pair at once",
    needs="two opposite-direction requests on one pool in one block, exactly one of which fails at execution: the survivor is executed twice",
    caught_by="C04.exact_in_debit / C04.exact_out_debit (request-level harness mode c04) ",
    history="caught at first run"),
 "C06-1": dict(
    change="x/stablestake/keeper/debt.go Borrow: GetDebt instead of UpdateInterestAndGetDebt",
    needs="a second borrow by a borrower that already has a debt with interest pending since an earlier block (interest is stacked on the debt but not added to TotalValue)",
    caught_by="C06.vault_equation in hist mode with the leveragelp sweep variants (VERIF_LPSWEEP) that let debts age before a re-borrow",
    history="MISSED at first (re-borrows always happened right after an interest update); sweep variants added; caught since"),
 "C08-1": dict(
    change="x/leveragelp/keeper/msg_server_close_positions.go: pool record memoised per message and passed by value",
    needs="one close-positions message closing two positions of the same pool: the second close overwrites the first's total",
    caught_by="C08.pool_eq_sum in hist mode (batchClose op naming several positions of one pool)",
    history="MISSED at first (batches named one position per pool); same-block batch closes added to the grammar; caught since"),
 "C09-1": dict(
    change="x/perpetual/keeper/open_consolidate.go: CheckLowPoolHealthAndMinimumCustody skipped for pure collateral top-ups",
    needs="leverage-0 top-up of a LONG with base-currency collateral; recorded long custody already close to the amm pool's balance; "
          "shorts whose liabilities exceed the position's custody; pool health still above the threshold",
    caught_by="see catch matrix in DESIGN.md §0.5",
    history="see DESIGN.md §0.5"),
 "C11-1": dict(
    change="x/perpetual/keeper/open_consolidate.go: hooks skipped when the added piece has no liabilities",
    needs="a pure collateral top-up (MsgOpen leverage 0 on an existing position): pool balance changes but the accounted pool is not refreshed",
    caught_by="C11.accounted_eq in hist mode (leverage-0 top-ups in the grammar)",
    history="MISSED at first (no leverage-0 opens); top-ups added; caught since"),
 "C12-1": dict(
    change="x/commitment/types/commitments.go AddCommittedTokens: lock-ups with the same unlock time coalesced, replacing the amount instead of adding",
    needs="two locked commits of the same denom with the same unlock timestamp (same block): the second replaces the first's lock, so part can be withdrawn early",
    caught_by="C12.lock (differential lock-up model, harness mode c12lock)",
    history="MISSED at first (lock-ups were not modelled); Ledger/Lockups.lean + theorems + c12lock mode added; caught since"),
 "C13-1": dict(
    change="x/masterchef/keeper/abci.go UpdateLPRewards: CalculateProxyTVL moved before the fee collections",
    needs="a block in which the fee collection's own conversion swaps change the pools' TVL noticeably (large non-USDC fees): shares of the block's reward computed on stale TVL exceed what was collected",
    caught_by="C13.block_credit and C13.solvent in hist mode (large fee stream)",
    history="MISSED at first; block_credit clause and large-fee ops added; caught since"),
 "C20-1": dict(
    change="x/tradeshield/keeper/pending_spot_order.go RemovePendingSpotOrder: decrements the order counter (which is also the next id)",
    needs="cancel/execute a spot order that is not the newest, then create another: the new order reuses a live order's id and escrow account",
    caught_by="C20.cancel_returns_all (and escrow book correspondence) in hist mode",
    history="caught at first run"),
}

root = os.path.join(os.path.dirname(os.path.dirname(os.path.abspath(__file__))), "seeded")
for sid, m in sorted(T.items()):
    d = os.path.join(root, sid)
    if not os.path.isdir(d):
        print("missing", sid); continue
    p = sid.split("-")[0]
    conf = ""
    try: conf = open(os.path.join(d, "confirm.log")).read().strip().splitlines()[-1]
    except Exception: pass
    teeth = ""
    try: teeth = open(os.path.join(d, "teeth.log")).read().strip()
    except Exception: pass
    meta = dict(id=sid, property=p, origin="independent sub-agent given only the property text and a scratch worktree under /tmp",
                change=m["change"], needs_to_manifest=m["needs"],
                ran=[CONFIRM.format(p=p), TEETH.format(id=sid, p=p)],
                confirm_result=conf, teeth_result=teeth, caught_by=m["caught_by"], history=m["history"],
                files=["patch.diff", "demo/", "SEEDED.md", "confirm.log", "demo_with_change.log", "demo_without_change.log"])
    json.dump(meta, open(os.path.join(d, "meta.json"), "w"), indent=1)
    print("wrote", sid)
