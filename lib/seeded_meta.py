#!/usr/bin/env python3
"""Writes /verif/seeded/<id>/meta.json for every stored seeded change from the table below (what each change is, what it
needs to manifest, what was run against it and which check clause reports it). The table is filled in by hand after
`lib/seeded_confirm.sh` (independent confirmation on a scratch worktree) and `lib/teeth.sh` (the registered checks run
against a scratch worktree with the change applied) have been run."""
import json, os, sys

CONFIRM = ("lib/seeded_confirm.sh {p}: fresh scratch worktree of /repo under /tmp, `git apply patch.diff`, `go build ./...`, "
           "`go test -vet=off -count=1` of every touched module (existing tests, unedited), then the demo test with the change "
           "(must fail) and after `git apply -R` (must pass); worktree removed. Result in confirm.log.")
TEETH = ("lib/teeth.sh sd-{id} seeded/{id}/patch.diff {p}: scratch worktree with the change, `VERIF_REPO=<worktree> "
         "VERIF_OUTDIR=/tmp/teeth-out/... ./check {p} --tier quick`; worktree removed.")

T = {
 "C01-1": dict(
    change="x/amm/keeper/fee.go SwapFeesToRevenueToken: guard `!tokenOutAmount.IsPositive()` removed",
    needs="oracle pool with a positive swap fee; swap whose input is not the fee denom; a dust fee whose conversion to the fee "
          "denom truncates to exactly 0 (the nested conversion's pool update lands on the in-memory pool the outer swap keeps using)",
    caught_by="C01.reserve_eq_held, C01.liquidity_eq_sum and the poolBook correspondence, in scenario c01-dust-fee-sweep",
    history="MISSED by the first version of the check (random histories never hit a fee conversion that truncates to 0 on a pool "
            "whose state had drifted); scenario c01-dust-fee-sweep (fresh balanced oracle pool, 47 swaps with fees of 1..12 base "
            "units) and a small-fee swap stream were added; caught since. NO LONGER A VIOLATION since fix 78eb247: the change made a dust "
            "conversion fail after it had applied itself to the caller's in-memory pool, and 78eb247 restores that pool after any failed "
            "conversion — the author's demonstration passes with the change applied on the repaired tree (re-run on a scratch worktree)"),
 "C02-1": dict(
    change="x/amm/types/pool_exit_pool.go ExitPool: early return when the exiting coins are empty",
    needs="an exit of so few shares that every asset's payout truncates to 0 (dust exit): shares are burnt but pool total shares are not reduced",
    caught_by="C02.shares_agree (supply vs pool total shares) in hist mode (dust exits in the grammar)",
    history="caught at first run"),
 "C04-1": dict(
    change="x/amm/keeper/abci.go ExecuteSwapRequests: commits the surviving request of an opposite-direction pair at once",
    needs="two opposite-direction requests on one pool in one block, exactly one of which fails at execution: the survivor is executed twice",
    caught_by="C04.exact_in_debit / C04.exact_out_debit (request-level harness mode c04) ",
    history="caught at first run"),
 "C06-1": dict(
    change="x/stablestake/keeper/debt.go Borrow: GetDebt instead of UpdateInterestAndGetDebt",
    needs="a second borrow by a borrower that already has a debt with interest pending since an earlier block (interest is stacked on the debt but not added to TotalValue)",
    caught_by="C06.vault_equation in hist mode with the leveragelp sweep variants (VERIF_LPSWEEP) that let debts age before a re-borrow",
    history="MISSED at first (re-borrows always happened right after an interest update); sweep variants added; caught since"),
 "C08-1": dict(
    change="x/leveragelp/keeper/msg_server_close_positions.go: pool record memoised per message and passed by value",
    needs="one close-positions message closing two positions of the same pool: the second close overwrites the first's total",
    caught_by="C08.pool_eq_sum in hist mode (batchClose op naming several positions of one pool)",
    history="MISSED at first (batches named one position per pool); same-block batch closes added to the grammar; caught since"),
 "C09-1": dict(
    change="x/perpetual/keeper/open_consolidate.go: CheckLowPoolHealthAndMinimumCustody skipped for pure collateral top-ups",
    needs="leverage-0 top-up of a LONG with base-currency collateral; recorded long custody already close to the amm pool's balance; "
          "shorts whose liabilities exceed the position's custody; pool health still above the threshold",
    caught_by="C09.custody_backed in scenario c09-saturated-pool-topups (pool driven to saturation by low-leverage longs, then top-ups of decreasing size)",
    history="MISSED at first (random histories never saturate a pool); saturation scenario, whale histories and top-ups aimed at existing positions added; caught since (by the scenario; random whale histories did not reach it in 4 x 300 steps)"),
 "C11-1": dict(
    change="x/perpetual/keeper/open_consolidate.go: hooks skipped when the added piece has no liabilities",
    needs="a pure collateral top-up (MsgOpen leverage 0 on an existing position): pool balance changes but the accounted pool is not refreshed",
    caught_by="C11.accounted_eq in hist mode (leverage-0 top-ups in the grammar)",
    history="MISSED at first (no leverage-0 opens); top-ups added; caught since"),
 "C12-1": dict(
    change="x/commitment/types/commitments.go AddCommittedTokens: lock-ups with the same unlock time coalesced, replacing the amount instead of adding",
    needs="two locked commits of the same denom with the same unlock timestamp (same block): the second replaces the first's lock, so part can be withdrawn early",
    caught_by="C12.lock (differential lock-up model, harness mode c12lock)",
    history="MISSED at first (lock-ups were not modelled); Ledger/Lockups.lean + theorems + c12lock mode added; caught since"),
 "C13-1": dict(
    change="x/masterchef/keeper/abci.go UpdateLPRewards: CalculateProxyTVL moved before the fee collections",
    needs="a block in which the fee collection's own conversion swaps change the pools' TVL noticeably (large non-USDC fees): shares of the block's reward computed on stale TVL exceed what was collected",
    caught_by="C13.block_credit and C13.solvent in hist mode (large fee stream)",
    history="MISSED at first; block_credit clause and large-fee ops added; caught since"),
 "C20-1": dict(
    change="x/tradeshield/keeper/pending_spot_order.go RemovePendingSpotOrder: decrements the order counter (which is also the next id)",
    needs="cancel/execute a spot order that is not the newest, then create another: the new order reuses a live order's id and escrow account",
    caught_by="C20.cancel_returns_all (and escrow book correspondence) in hist mode",
    history="caught at first run"),
 "C03-1": dict(
    change="x/amm/types/pow_approx.go computeLn: `yPower.MulMut(y)` instead of `yPower = yPower.Mul(y)` (yPower aliases y)",
    needs="weighted pool with a fractional weight ratio other than x.5 and a single exact-out swap taking more than half of the out reserve (power base >= 2, exp-log path)",
    caught_by="C03.pow_spec (Go Pow vs the Lean port and its error bound) and C03.weighted_within_1e8, mode c03",
    history="caught at first run"),
 "C05-1": dict(
    change="x/amm/types/pool_join_pool.go JoinPool: single-asset shares computed on the per-block snapshot instead of the live pool",
    needs="non-oracle pool; single-asset join; an earlier operation on the same pool in the same block (snapshot differs from the pool)",
    caught_by="C05.single_join_within_1e8 in mode c05 with a block snapshot argument that differs from the pool",
    history="MISSED at first (the harness passed the pool itself as its snapshot); perturbed snapshots added (the minted shares must not depend on it); caught since"),
 "C07-1": dict(
    change="x/stablestake/keeper/msg_server_bond.go Bond: rate read from the cached params.RedemptionRate instead of GetRedemptionRate",
    needs="interest booked into TotalValue by a Borrow/Repay after the last begin-block refresh of the cached rate, then a Bond before the next refresh",
    caught_by="C07.bond_unbond, C07.others_unharmed, C07.rate_mono in mode c07 (real msg server, op sequences with repay-then-bond)",
    history="caught at first run"),
 "C10-1": dict(
    change="x/perpetual/keeper/open_consolidate.go: health check of the consolidated position skipped when the new leg has no liabilities",
    needs="a position already at or below the safety factor that nobody liquidated yet; its owner tops it up (leverage 0) with too little collateral to restore it",
    caught_by="C10.open_healthy in mode c10 (consolidating re-opens during the probe rounds)",
    history="MISSED at first (opens only in the set-up phase); re-opens from dust to large on positions near the safety factor added; caught since"),
 "C14-1": dict(
    change="x/commitment/keeper/msg_server_claim_vesting.go: the clamp after a partial cancel rewritten so that ClaimedAmount is written back lower",
    needs="vest, claim, partial cancel that drops the schedule below what was released, a claim inside the catch-up window, a later claim",
    caught_by="C14.complete, C14.conservation in mode c14 (op sequences on the real msg server vs the Lean vesting model)",
    history="caught at first run"),
 "C15-1": dict(
    change="x/commitment/keeper/msg_server_claim_vesting.go: MintCoins(newClaims) instead of only the ELYS part",
    needs="a governance-registered vesting schedule for a non-ELYS denom; one account with both an Eden vesting and a liquid-token vesting, both releasing in one MsgClaimVesting",
    caught_by="C15.mint_burn_sites and C15.external_conserved in hist mode (focus cm.)",
    history="MISSED at first (no liquid-token vesting in the world or grammar); uatom vesting schedule + cm.vestLiquid + cm-focused runs added; caught since"),
 "C16-1": dict(
    change="x/oracle/keeper/abci.go EndBlock: expiry sweep skips the remaining entries of an asset once a live price was seen",
    needs="one asset fed by two sources, the earlier-sorting source live, the later-sorting (preferred) source stale",
    caught_by="C16.expired_served in mode c16",
    history="caught at first run"),
 "C17-1": dict(
    change="x/assetprofile/keeper/msg_server_entry.go: the two authority checks folded into one helper with && instead of ||",
    needs="an entry whose recorded Authority is not governance (genesis import, pool share entries), signed by exactly that address",
    caught_by="regenerated handler table no longer proves Props/C17 (broken obligation) + C17.refused with a concrete input (recordedOwner probe)",
    history="caught at first run as a broken proof obligation with no failing input; recordedOwner probes (objects recorded as owned by an ordinary account) added, now reported with the failing message"),
 "C18-1": dict(
    change="app/app.go BlockedModuleAccountAddrs: the wrong ICS consumer account is un-blocked, cons_to_send_to_provider stays blocked",
    needs="Eden inflation on, provider portion > 0, a second ten-day epoch start with a positive vesting claim for the provider account: bank refuses the send, the epochs begin-blocker panics",
    caught_by="C18.block_ok in hist fault mode in the inflation world",
    history="MISSED at first (no inflation configured in any world); inflation variant added - which at once exposed a genuine defect of the unchanged code (fix e07ea76); "
            "then caught (C18.block_ok, teeth.log). Since fix 7acf6c7 (the estaking epoch hook no longer passes a failed provider claim on to the panicking epochs "
            "begin-blocker) this change no longer halts the chain, i.e. it no longer violates C18, and the check is rightly silent on it (teeth_after_7acf6c7.log)"),
 "C19-1": dict(
    change="x/amm/types/pow_approx.go exponentialLogarithmicMethod: lnBase.MulMut(exp) overwrites the package-level ln2 constant when base == 2",
    needs="unequal-weight pool with a fractional exponent; an operation (even a refused one) with power base exactly 2; then a process that never evaluated it (restart) executing a swap with base outside [0.5, 2)",
    caught_by="C19.replicas_agree in mode c19 (fourth replica executed by a fresh OS process per block)",
    history="MISSED at first (all replicas shared one process, hence the corrupted global); fresh-process replica and exact-half / whale swaps on the weighted pool added; caught since"),
 "C01-2": dict(
    change="x/amm/keeper/pool.go GetAccountedPoolSnapshotOrSet: accounted balances written in place into a slice that aliases the live pool's assets",
    needs="an oracle pool whose accounted balance differs from its reserves (open perpetual position); a block boundary; a state-changing amm operation that is the first touch of the pool in the new block",
    caught_by="C01.reserve_eq_held, C01.liquidity_eq_sum in hist mode", history="caught at first run"),
 "C02-2": dict(
    change="x/amm/keeper/apply_exit_pool_state_change.go: payout and SetPool both skipped when the exit coins are empty",
    needs="a dust all-asset exit whose payout truncates to zero for every asset", caught_by="C02.shares_agree (stored history C02-dust-exit and hist mode)", history="caught at first run"),
 "C03-2": dict(
    change="x/amm/types/swap_out_amt_given_in.go: fast path paying the curve amount instead of oracle amount minus clamped slippage when the external liquidity ratio is 1",
    needs="oracle pool without accounted pool, ratio exactly 1, a swap that is not the first pool-changing operation of its block (snapshot differs from reserves in the trader's favour), exact-in",
    caught_by="C03.oracle_value in mode c03 (block snapshots that differ from the pool)", history="caught at first run"),
 "C04-2": dict(
    change="x/amm/keeper/keeper_swap_exact_amount_in.go: the minimum-out check counts the expected weight-recovery bonus, which UpdatePoolForSwap caps by the treasury balance",
    needs="oracle pool beyond the weight-difference threshold, swap in the recovering direction, minimum between plain output and output + bonus, rebalance treasury holding less than the bonus",
    caught_by="C04.exact_in_min_out in mode c04 (oracle price jumps: imbalance without a funded treasury; limits of quote + 1)",
    history="MISSED at first (no imbalanced oracle pools in the request-level world); whale imbalance shocks and oracle price jumps added; caught since"),
 "C05-2": dict(
    change="x/amm/keeper/apply_exit_pool_state_change.go: AfterExitPool hooks skipped for liquidation exits",
    needs="leveragelp liquidation on an oracle pool (the accounted pool is not refreshed), then a single-asset join/exit priced from the stale accounted balance before anything refreshes it",
    caught_by="C05.pricing_base_is_true_balance in history mode (driver C05H)",
    history="MISSED at first (C05 was checked at function level only); block-level clauses on real histories added (exit payout vs pro-rata value, stored accounted balance = true balance); caught since"),
 "C06-2": dict(
    change="x/stablestake/keeper/debt.go Borrow: GetDebt instead of UpdateInterestAndGetDebt (same site as C06-1)",
    needs="consolidating re-open by a borrower with interest pending since an earlier block", caught_by="C06.vault_equation (stored history C06-reborrow-with-pending-interest and hist mode)", history="caught at first run"),
 "C07-2": dict(
    change="x/stablestake/keeper/msg_server_bond.go Bond: cached params.RedemptionRate (same site as C07-1)",
    needs="interest booked after the epoch tick, then a Bond before the next one", caught_by="C07.bond_unbond, C07.others_unharmed, C07.rate_mono in mode c07", history="caught at first run"),
 "C08-2": dict(
    change="x/leveragelp/keeper/begin_blocker.go: pool record cached per page in the fallback sweep and passed by value",
    needs="two positions of one pool closed by the begin-blocker sweep in the same block", caught_by="C08.pool_eq_sum in hist mode", history="caught at first run"),
 "C09-2": dict(
    change="x/perpetual/keeper/open_consolidate.go: CheckLowPoolHealthAndMinimumCustody skipped when msg.Leverage is zero (variant of C09-1)",
    needs="as C09-1", caught_by="C09.custody_backed in scenario c09-saturated-pool-topups", history="caught at first run"),
 "C10-2": dict(
    change="x/perpetual/keeper/settle_funding_fee*.go: the funding checkpoint is advanced only at the end of FundingFeeDistribution, which returns early for a paying position",
    needs="a pool with longs and shorts (non-zero funding rate), the victim on the paying side, at least two settlements of the same position: the second takes the whole period again",
    caught_by="C10.only_accrued_taken (the same request repeated within one block; custody compared with one predicted settlement) and C10.third_party_close",
    history="MISSED at first (custody of perpetual positions was not compared because settlements legitimately reduce it); repeated requests and the only-accrued clause added; caught since"),
 "C11-2": dict(
    change="x/accountedpool/keeper/hooks_perpetual.go PerpetualUpdates: an asset whose perpetual part (liabilities - custody) did not move is skipped",
    needs="a perpetual operation that changes an asset's amm balance while its liabilities - custody stays equal: collateral top-up (leverage 0) of a LONG with base-currency collateral",
    caught_by="C11.total_eq (stored history C11-leverage0-topup and hist mode)", history="caught at first run"),
 "C12-2": dict(
    change="x/commitment/types/commitments.go AddCommittedTokens: same-timestamp lock-ups merged through a helper that updates a loop COPY (range over a slice of values)",
    needs="the same account commits the same denom twice with the same non-zero unlock time (two joins of an oracle pool in one block)",
    caught_by="C12.lock (differential lock-up mode c12lock)", history="caught at first run"),
 "C13-2": dict(
    change="x/masterchef/keeper/abci.go UpdateLPRewards: CalculateProxyTVL moved before the fee collections (same change as C13-1)",
    needs="as C13-1", caught_by="C13.block_credit, C13.solvent (stored history C13-large-fee-conversion-moves-tvl and hist mode)", history="caught at first run"),
 "C14-2": dict(
    change="x/commitment/keeper/msg_server_claim_vesting.go: the payout send moved inside the ELYS guard",
    needs="a claim that releases a liquid-vested denom (MsgVestLiquid) but no ELYS: the release is recorded, nothing is paid",
    caught_by="C14.complete, C14.conservation in mode c14 (every fourth sequence vests a liquid token)",
    history="MISSED at first (mode c14 only vested Eden); liquid-token sequences added (same model, payout denom = the token); caught since"),
 "C15-2": dict(
    change="x/commitment/keeper/msg_server_claim_vesting.go: MintCoins(newClaims) (same change as C15-1)",
    needs="as C15-1", caught_by="C15.mint_burn_sites, C15.external_conserved (stored history C15-mixed-vesting-claim and hist mode)", history="caught at first run"),
 "C16-2": dict(
    change="x/oracle/keeper/abci.go EndBlock: expiry cut-offs computed once with unsigned subtraction (wraps when height < LifeTimeInBlocks or time < PriceExpiryTime)",
    needs="block height below LifeTimeInBlocks or unix time below PriceExpiryTime: every price, even one fed in the block, is deleted",
    caught_by="C16.newest in mode c16", history="caught at first run"),
 "C17-2": dict(
    change="x/assetprofile/keeper/msg_server_add_entry.go: the 'already set' guard of the permissionless MsgAddEntry looks the entry up by Denom instead of BaseDenom",
    needs="a MsgAddEntry from anyone with the BaseDenom of an existing (governance-owned) listing and a Denom no entry uses: the listing is overwritten",
    caught_by="C17.existing_object_overwritten in mode c17",
    history="MISSED at first (messages without an authority field were recorded, never judged); permissionless create messages aimed at existing objects are now judged; caught since"),
 "C18-2": dict(
    change="x/amm/keeper/keeper_swap_exact_amount_in.go: recover() moved into a helper called from the deferred closure (recover only works when called directly by the deferred function)",
    needs="a swap executed in an end-blocker (fee conversion, swap queue) that panics inside the pool arithmetic: fee in an 18-decimal asset whose pool holds one base unit of it",
    caught_by="C18.block_ok in scenario c18-fee-conversion-panics-in-pool-math",
    history="MISSED at first (no 18-decimal asset, no panic in pool arithmetic reachable in the worlds); scenario added; caught since"),
 "C19-2": dict(
    change="x/amm/types/pow_approx.go exponentialLogarithmicMethod: lnBase.MulMut(exp) (same change as C19-1)",
    needs="as C19-1", caught_by="C19.replicas_agree in mode c19 (fresh-process replica)", history="caught at first run"),
 "C20-2": dict(
    change="x/tradeshield/keeper/pending_spot_order.go RemovePendingSpotOrder: decrements the counter that is also the next order id (same change as C20-1)",
    needs="as C20-1", caught_by="C20.cancel_returns_all (stored history C20-order-id-reuse and hist mode)", history="caught at first run"),
 "C01-3": dict(
    change="x/amm/keeper/msg_server_feed_multiple_external_liquidity.go GetExternalLiquidityRatio: starts from the ACCOUNTED balances, which the caller writes back as the pool's reserves",
    needs="an oracle pool with an open perpetual position (accounted balance differs from the reserve) and a price feeder's MsgFeedMultipleExternalLiquidity for that pool",
    caught_by="C01.reserve_eq_held, C01.liquidity_eq_sum in hist mode (op amm.feedExternalLiquidity)",
    history="MISSED at first (the feeder's external-liquidity message was not in the grammar); added; caught since"),
 "C02-3": dict(
    change="x/commitment/types/commitments.go DeductFromCommitted: the committed entry is dropped when the WITHDRAWABLE remainder is zero instead of when the remaining amount is zero",
    needs="an account holding both unlocked and still-locked shares of an oracle pool exits exactly the unlocked part (a tie in the lock-up check): the locked shares vanish from its commitments",
    caught_by="C02.shares_agree (stored history C02-exit-exactly-unlocked; grammar: exit of exactly committed minus locked)",
    history="MISSED at first (no exit of exactly the withdrawable amount); boundary added to the grammar and a history found and stored (lib/find_record.py); caught since"),
 "C03-3": dict(
    change="x/amm/types/swap_in_amt_given_out.go: the non-oracle exact-out price is computed on the per-block SNAPSHOT instead of the live pool",
    needs="non-oracle pool, exact-out swap that is not the first operation on the pool in its block", caught_by="C03.in_ge_exact, C03.in_ge_exact_one_unit, C03.weighted_within_1e8 in mode c03 (snapshot argument that differs from the pool)",
    history="MISSED at first (mode c03 passed the pool itself as its snapshot for non-oracle pools); perturbed snapshots added (nothing may depend on them); caught since"),
 "C04-3": dict(
    change="x/amm/keeper/route_exact_amount_out.go: the sender's TokenInMaxAmount is applied on the LAST hop instead of the first",
    needs="multi-hop exact-out whose real cost exceeds the limit after another tx of the same block moved the first-hop pool", caught_by="C04.exact_out_debit, C04.only_stated_denoms in mode c04", history="caught at first run"),
 "C05-3": dict(
    change="x/amm/types/solve_constant_function_invariant.go feeRatio: inner subtraction reversed (the swapped part of a single-asset join is credited the fee instead of charged it)",
    needs="non-oracle pool with a positive swap fee and a single-asset join", caught_by="C05.single_join_within_1e8 in mode c05", history="caught at first run"),
 "C06-3": dict(
    change="x/tier/keeper/portfolio.go uses UpdateInterestAndGetDebt (books interest into TotalValue) + x/stablestake Unbond runs its hooks BEFORE writing its stale params copy",
    needs="an account that both lends and holds a leveraged-LP position unbonds as its first portfolio-triggering action of a new day, with interest pending on its position",
    caught_by="C06.vault_equation (stored history C06-unbond-by-borrower-new-day; fault run with long block gaps focused on stablestake)",
    history="MISSED at first (days rarely change in plain histories); fault run added to C06 and a history found and stored; caught since"),
 "C07-3": dict(
    change="x/stablestake/keeper/params.go GetRedemptionRate: returns the params snapshot whenever the computed rate is lower",
    needs="the vault emptied and refilled within one epoch after interest accrued (snapshot above the restarted rate); or rounding dust below the default snapshot of 1",
    caught_by="correspondence of mode c07 (the real rate differs from the Lean model's) - reported with no failing input",
    history="caught at first run as a broken correspondence without a failing input: the epoch snapshot is written by the begin-blocker, which mode c07 does not run (the model computes interest from a fixed rate); left as it is"),
 "C08-3": dict(
    change="x/leveragelp/keeper/position_close.go ForceCloseLong: 'fully closed' decided by ratio == 1 (an 18-digit decimal) instead of remaining shares == 0",
    needs="a partial close leaving a few shares of a position of more than 2e18 shares: the position is destroyed, the dust stays in the pool total", caught_by="C08.pool_eq_sum, C08.position_eq_committed in hist mode (closes leaving 1..10 shares)",
    history="MISSED at first (partial closes were fractions of at least 1e-6); dust-remainder closes added; caught since"),
 "C09-3": dict(
    change="x/perpetual/keeper/msg_server_close_positions.go: perpetual pool cached per message, invalidated only after a SUCCESSFUL entry (the cached value shares slices with what a failed entry mutated)",
    needs="one close-positions message with an entry that fails after touching the pool totals followed by a successful entry of the same pool", caught_by="C09.aggregates_eq_sum (stored history C09-closepositions-failed-entry-then-success)",
    history="MISSED at first by the quick run; a fault + whale history found and stored; caught since"),
 "C10-3": dict(
    change="x/leveragelp/keeper/position_open.go ProcessOpenLong: the unhealthy-position rejection applies only when the open borrows something",
    needs="an existing leveraged-LP position at or below the safety factor that was not swept yet, re-opened by its owner with leverage 1 or dust", caught_by="C10.open_healthy in mode c10 (leveragelp sweep variants)",
    history="MISSED at first (with the default sweep an unhealthy leveraged-LP position never survives to its owner's next tx); sweep variants per world added; caught since"),
 "C11-3": dict(
    change="x/perpetual/keeper/mtp.go fillMTPData (read helper): UpdateFundingFee replaced by SettleFunding, which persists the settlement",
    needs="a perpetual pool with long and short open interest, funding accrued, and a transaction of another module that reads the MTPs "
          "(tier portfolio hooks once per user per day, tradeshield MsgCreatePerpetualOpenOrder): custody changes after the accounted pool was refreshed",
    caught_by="C11.total_eq and C11.nonamm_eq in hist mode (perp-focused run)",
    history="caught at first run"),
 "C12-3": dict(
    change="x/leveragelp/keeper/position_close.go CloseLong: the unhealthy-position condition is passed on as isLiquidation to ForceCloseLong",
    needs="a leveraged-LP position on an oracle pool, less than one hour after its last open (lock active), health at or below the safety factor, "
          "closed by its OWNER with MsgClose: the commitment lock is overridden without a liquidation",
    caught_by="C12.lock_kept in hist mode (cm-focused run) and stored history corpus/C12-owner-close-of-unhealthy-position-within-lock",
    history="MISSED at first (the driver compared lock lists only against the model's own uncommit rule, which took the liquidation flag from the "
            "implementation's event); clause C12.lock_kept added: an unexpired lock disappears only in a block with a liquidation "
            "(MsgClosePositions / sweep) of that owner; caught since"),
 "C13-3": dict(
    change="x/masterchef/keeper/hooks_user_actions.go GetRewardDenoms: the dedupe set is seeded with the constant ptypes.BaseCurrency instead of the chain's USDC denom",
    needs="USDC's on-chain denom differs from its base denom uusdc (an ibc/ voucher, as in production), a third-party incentive in USDC has distributed on a pool, "
          "then an LP removes liquidity: the base currency is processed twice and the exit over-credits",
    caught_by="C13.block_credit and C13.solvent in hist mode (histories whose world has USDC as an ibc/ voucher) and stored history corpus/C13-usdc-voucher-incentive-then-exit",
    history="MISSED at first: every world used uusdc for both denoms, and — found while looking — every MsgAddExternalIncentive of the grammar was refused "
            "(no supported reward denom configured). World variant added (one history in four has USDC as an ibc/ voucher; VERIF_IBC_USDC=1 forces it), "
            "supported reward denoms ATOM and USDC configured, incentives funded in either, the driver tracks a reward denom from its funding; caught since"),
 "C14-3": dict(
    change="x/commitment/keeper/msg_server_cancel_vest.go CancelVest: per-entry cancellable amount bounded by total − VestedSoFar instead of total − ClaimedAmount",
    needs="claim part of an entry, a first partial cancel that pulls the schedule below what was released, then a second cancel larger than total − claimed",
    caught_by="C14.conservation and C14.complete in mode c14",
    history="caught at first run"),
 "C15-3": dict(
    change="x/commitment/keeper/msg_server_unstake.go performUncommit: calls the keeper's denom-agnostic UncommitTokens instead of the msg server method with the Eden/EdenB allow-list",
    needs="MsgUnstake with a pool share denom as asset (refused on the original), a bank send of the now liquid shares to the zero address, the burner epoch ending",
    caught_by="C15.external_conserved (burn of a share denom by the burner with no withdrawal) in hist mode (cm-focused run) and stored history corpus/C15-unstake-shares-then-burn",
    history="MISSED at first (no MsgUnstake with other assets, no sends to the zero address, and the burner had no epoch in the standard world); grammar ops "
            "cm.unstakeOther and bank.toZero added, burner epoch of five minutes in every world, the known finding C15-burner narrowed to external denoms; caught since"),
 "C16-3": dict(
    change="x/oracle/keeper/msg_server_feed_multiple_prices.go: a re-fed unchanged value is skipped instead of written",
    needs="MsgFeedMultiplePrices with exactly the stored value, then expiry of the older entry while the newer feed would still be live",
    caught_by="C16.newest in mode c16",
    history="caught at first run"),
 "C17-3": dict(
    change="x/amm/types/params.go IsCreatorAllowed: an empty AllowedPoolCreators list means unrestricted",
    needs="stored amm params with an empty creator list (a governance MsgUpdateParams that leaves the field out), then MsgCreatePool from anybody",
    caught_by="C17.list_gated_refused in mode c17 (probes under governance-written variants of the gating list: empty, other address)",
    history="MISSED at first (list-gated messages were probed under the default list only); listGated probes added; caught since"),
 "C18-3": dict(
    change="x/commitment/keeper/commitments.go BurnEdenBoost: SetCommitments moved after the CommitmentChanged hook",
    needs="an account with committed EdenB and a bonded ELYS delegation reduces the delegation partially in one block and again in a later block: "
          "the distribution starting info kept the pre-burn stake and the estaking end-blocker's withdrawal panics",
    caught_by="C18.block_ok (halt in EndBlock) in hist mode and stored history corpus/C18-edenb-burn-stale-starting-info",
    history="MISSED at first (the grammar had no ELYS staking); stake.delegate / stake.undelegate (MsgStake, MsgUnstake of uelys) added; caught since"),
 "C19-3": dict(
    change="x/amm/keeper: decoded Params memoised in process memory, refilled from whatever context asks first",
    needs="empty BaseAssets (default genesis), a MsgCreatePool that passes the base-asset checks and then fails (memo polluted from the discarded branch), "
          "a restart, then a successful MsgCreatePool",
    caught_by="C19.replicas_agree in mode c19 (fresh-process replica)",
    history="caught at first run"),
 "C20-3": dict(
    change="x/tradeshield/genesis.go InitGenesis: pending order counters (the next ids) derived from the length of the imported lists",
    needs="an export / import of the module's genesis while orders with gaps below the highest id are pending, then a new order: it takes the id and the escrow account of a pending one",
    caught_by="C20.cancel_returns_all in hist mode with genesis round trips (VERIF_GENTRIP) and stored history corpus/C20-genesis-restart-order-id-reuse",
    history="MISSED at first (no history restarted a module from its exported genesis); fault kind genesisRoundTrip (ExportGenesis → InitGenesis of one module "
            "between blocks, harness/gentrip.go) added — which also exposed the same defect in the unchanged perpetual and leveragelp InitGenesis (fix 41f14ef); caught since"),
 "C01-4": dict(
    change="x/amm/keeper/route_exact_amount_in.go RouteExactAmountIn: all pools of a route are read once before the first hop",
    needs="a multi-hop exact-in route that names the same pool twice (A -> B -> A): the second hop works on a copy read before the first and overwrites its reserves",
    caught_by="C01.reserve_eq_held and C01.liquidity_eq_sum in hist mode",
    history="MISSED at first (two-hop routes always went through two different pools); routes through the same pool twice added to the grammar; caught since"),
 "C02-4": dict(
    change="x/commitment/keeper/msg_server_unstake.go performUncommit: calls the keeper's denom-agnostic UncommitTokens (same mechanism as C15-3, found independently)",
    needs="MsgUnstake with an LP share denom as asset by a holder of unlocked committed shares: shares become liquid outside the commitment custody",
    caught_by="C02.shares_agree in hist mode (cm.unstakeOther is in the grammar since round 3)",
    history="caught at first run"),
 "C06-4": dict(
    change="x/stablestake/genesis.go ExportGenesis: debts are exported through the read view GetDebt, which adds the pending interest and moves the checkpoint",
    needs="an open loan with unsettled interest, then an export / import of the module's genesis: TotalValue misses the pending interest for ever",
    caught_by="C06.vault_equation in hist mode with fault injection (genesis round trips)",
    history="caught at first run"),
 "C08-4": dict(
    change="x/leveragelp/keeper/position_open.go ProcessOpenLong: UpdatePoolHealth (the only place that saves the pool) is skipped when nothing is borrowed",
    needs="a consolidating re-open with leverage exactly 1, or a dust open whose borrowed part truncates to 0: the pool total misses the shares",
    caught_by="C08.pool_eq_sum in hist mode",
    history="MISSED at first (leverage was never 1 and collateral never dust); leverage-1 top-ups of existing positions and dust opens added to the grammar; caught since"),
 "C09-4": dict(
    change="x/perpetual/keeper/settle_funding_fee_collection.go FundingFeeCollection (short branch): pool custody reduced by the unconverted trading-asset amount",
    needs="a pool with short open interest above long open interest above zero, a funding rate recorded later, then any settlement on a short, trading asset price != 1",
    caught_by="C09.aggregates_eq_sum in hist mode",
    history="caught at first run"),
 "C12-4": dict(
    change="x/amm/keeper/apply_exit_pool_state_change.go: the liquidation override passed to UncommitTokens is isLiquidation || !pool.UseOracle",
    needs="shares joined to an oracle pool less than an hour ago, governance switches the pool's UseOracle off (MsgUpdatePoolParams), the owner exits before the lock expires",
    caught_by="C12.lock_kept in hist mode with pool-parameter governance (VERIF_GOVPOOL run) and stored history corpus/C12-oracle-switch-flipped-under-lock",
    history="MISSED at first (no history rewrote a pool's parameters); governance pool shocks added (oracle switch, swap fee; aimed at pools with locked holders, who then try to exit); caught since"),
 "C13-4": dict(
    change="x/stablestake/keeper/msg_server_unbond.go: AfterUnbond hook receives the redeemed USDC amount instead of the number of shares",
    needs="stablestake redemption rate above 1 (interest paid by borrowers), a positive reward accumulator on the stablestake pool, then an unbond",
    caught_by="C13.block_credit in hist mode",
    history="caught at first run"),
 "C15-4": dict(
    change="x/amm/types/pool_exit_pool.go processExitPool: early return when no coin leaves the pool (same mechanism as C02-1, found independently for C15)",
    needs="a dust exit from a non-oracle pool: share tokens are burned while the pool's TotalShares stays",
    caught_by="C15.share_paired in hist mode",
    history="MISSED at first by C15 (C02's check reports it): C15 judged share mints and burns only by the module that performs them; clause C15.share_paired added "
            "(over a block a share denom's supply moves by exactly what its pool's TotalShares moves); caught since"),
 "C18-4": dict(
    change="x/estaking/modules/distribution/module.go AllocateEdenUsdcTokens / AllocateEdenBTokens: power fractions rounded to nearest (Quo) instead of truncated",
    needs="distribution community tax 0 (permitted by validation), at least three fee-sharing validators (Eden and EdenB committed) whose rounded fractions sum above 1, fees to distribute: DecCoins.Sub panics in begin-block",
    caught_by="C18.block_ok in hist mode with governance shocks and stored history corpus/C18-zero-community-tax-rounded-fractions",
    history="MISSED at first (governance shocks covered elys' own messages only); distribution parameter shocks (community tax at boundary values) added; a quick run at seed 1 "
            "still does not hit it, the stored history does; caught since"),
 "C20-4": dict(
    change="x/tradeshield/keeper/msg_server_execute_orders.go: one cache context shared by all orders of a message instead of one per order",
    needs="one MsgExecuteOrders carrying an order that fails after moving funds, followed by one that succeeds: the failed attempt's writes are flushed",
    caught_by="C20.escrow_holds in hist mode",
    history="caught at first run"),
 "C03-4": dict(
    change="x/amm/keeper/update_pool_for_swap.go UpdatePoolForSwap: the weight-recovery bonus is sent from the pool's account instead of the rebalance treasury",
    needs="an oracle pool whose weights sit beyond the threshold from their targets, a funded treasury, a swap in the weight-improving direction",
    caught_by="C03.oracle_pool_pays_le_in (driver C03H) in scenario c03-bonus-from-treasury and amm-focused histories; also C01.reserve_eq_held",
    history="MISSED at first by C03 (its check drove the pool arithmetic only, not the settlement): clause oracle_pool_pays_le_in on real blocks (over a block's end-block "
            "transfers an oracle pool's account never pays out more value than it takes in at the prices in force) and the scenario added; caught since"),
 "C04-4": dict(
    change="x/amm/keeper/msg_server_swap_by_denom.go SwapByDenom: the user's MinAmount is shadowed by := and the inner exact-in message carries a minimum of 0",
    needs="MsgSwapByDenom (exact-in variant) with a non-trivial MinAmount that the pool cannot honour at execution (price moved within the block, or unachievable at delivery)",
    caught_by="C04.exact_in_min_out in mode c04",
    history="MISSED at first (the request blocks had no by-denom messages); a third of the single-hop exact-in requests now go through MsgSwapByDenom with the same stated minimum; caught since"),
 "C05-4": dict(
    change="x/accountedpool/keeper/hooks_amm.go UpdateAccountedPoolOnAmmChange: the stored non-amm balance is applied only when positive",
    needs="an oracle pool with an open long (negative non-amm balance), any amm operation, then a single-asset exit priced on the inflated accounted balance",
    caught_by="C05.pricing_base_is_true_balance (driver C05H) in hist mode; C11's check reports it too",
    history="caught at first run"),
 "C07-4": dict(
    change="x/stablestake/keeper/msg_server_update_params.go: a non-zero TotalValue in the proposal is stored instead of being overwritten with the live one",
    needs="a governance MsgUpdateParams drafted from the parameters as they were some operations ago, executed after the vault moved",
    caught_by="C07.others_unharmed in mode c07",
    history="MISSED at first (no governance parameter updates in the op sequences); op govparams added (the parameters as drafted some operations earlier are re-sent), with the "
            "clause that it must not lower the redemption rate; caught since"),
 "C10-4": dict(
    change="x/perpetual/keeper/mtp_health.go GetMTPHealth: for shorts only the principal, not principal + unpaid interest, is converted",
    needs="a short left alone long enough to carry unsettled interest, price moved so that health without interest is above the safety factor and with interest below, a consolidating re-open by the owner",
    caught_by="C10.open_healthy in mode c10 (health as the force-close path computes it)",
    history="MISSED at first (re-opens were judged on the health the keeper stored, all blocks were five seconds apart); re-opens are now also judged on the health computed the way a third "
            "party's close request computes it, long gaps and directed dust top-ups after them added; caught since"),
 "C11-4": dict(
    change="x/perpetual/keeper/process_mtp.go CheckAndLiquidateUnhealthyPosition: the accounted-pool refresh runs only when interest was paid",
    needs="a pool with long and short open interest, a healthy position named in a close-positions request when its interest truncates to zero but its funding does not",
    caught_by="C11.total_eq and C11.nonamm_eq in stored history corpus/C11-funding-only-settlement (found at seed 18 of the perp-focused histories)",
    history="MISSED at first by the quick run (the state is rare); a perp-focused history was found and stored; caught since"),
 "C14-4": dict(
    change="x/commitment/keeper/msg_server_vest.go ProcessTokenVesting: entries whose schedule has elapsed are dropped before the new entry is appended",
    needs="a vesting whose schedule elapsed with unclaimed tokens, then a new vest before the claim",
    caught_by="C14.conservation and C14.complete in mode c14",
    history="caught at first run"),
 "C16-4": dict(
    change="x/oracle/keeper/msg_server_proposals.go RemovePriceFeeders: the record is switched off instead of deleted",
    needs="governance removes a feeder, the removed account switches itself back on with MsgSetPriceFeeder (which only requires a record), then feeds",
    caught_by="C16.feeder_gate in mode c16",
    history="caught at first run only as a broken correspondence WITHOUT a failing input (the reference registry followed the implementation's answer to the self-service toggle, "
            "and no sequence fed after a revival); the reference registry now follows what the account was entitled to do and removed accounts try to revive and feed; caught with a failing input since"),
 "C17-4": dict(
    change="x/tradeshield/keeper/msg_server_spot_order.go CancelSpotOrder: the ownership test moved into the refund block, which is skipped when the escrow is empty",
    needs="a pending spot order with order amount zero (valid), cancelled by a stranger through MsgCancelSpotOrder or MsgCancelSpotOrders",
    caught_by="C17.owner_only in mode c17 (probes on a zero-escrow order)",
    history="MISSED at first (owner-scoped messages were probed on ordinary objects only); probes on a degenerate object (an order that escrows nothing) added; caught since"),
 "C19-4": dict(
    change="x/tradeshield: MsgExecuteOrders de-duplicates its id lists through a map and executes in the map's iteration order",
    needs="one MsgExecuteOrders naming two or more orders that all execute and interact (same pool), replicas whose map iteration starts elsewhere",
    caught_by="C19.replicas_agree in mode c19, and the proof obligation C19.ranges_as_expected (regenerated table of every range over a map)",
    history="MISSED at first (execute messages rarely named two executable orders); executable order pairs and execute-all messages added, and the table of map ranges is now "
            "regenerated and compared with a classified expectation; caught since"),
 "C01-5": dict(
    change="x/perpetual/keeper/mtp_borrow_interest.go SettleMTPBorrowInterestUnpaidLiability: the amm pool is re-read from the store before the interest payments are taken out of it",
    needs="an owner's MsgClose of a perpetual position with accrued interest that returns custody: the caller's stale pool copy overwrites the interest deduction",
    caught_by="C01.reserve_eq_held and C01.liquidity_eq_sum in hist mode",
    history="caught at first run"),
 "C03-5": dict(
    change="x/amm/types/calc_in_amt_given_out.go CalcInAmtGivenOut: weights taken from NormalizedWeights with the indices of the oracle branch (exponent inverted for non-oracle pools)",
    needs="an exact-out swap on a constant-product pool with unequal weights, buying the heavier asset",
    caught_by="C03.weighted_within_1e8 in mode c03",
    history="caught at first run"),
 "C04-5": dict(
    change="x/amm/keeper/keeper_swap_exact_amount_out.go InternalSwapExactAmountOut: the maximum-input guard applies only to a positive maximum",
    needs="an exact-out request whose stated maximum is 0 (or negative): accepted, queued and executed at full price",
    caught_by="C04.exact_out_debit in mode c04",
    history="MISSED at first (stated maxima were the quote and values around it); the boundary values 0, -1 and 1 of the limit added; caught since"),
 "C07-5": dict(
    change="x/stablestake/keeper/begin_blocker.go: the per-block interest entry is written only on epoch boundaries",
    needs="governance sets the vault's EpochLength above 1, the rate model lowers the rate between two boundaries, a debt settled at one boundary is settled again at a later one: negative interest is booked",
    caught_by="C07.others_unharmed (driver C07H) in stored history corpus/C07-negative-interest-at-epoch-boundaries and lp-focused histories with vault governance",
    history="MISSED at first (the op sequences of mode c07 run no begin-blocker; histories never changed the epoch length); driver C07H added (on real blocks the stated value does not fall "
            "without a redemption and the live redemption rate does not fall in a block without a lender) with governance of the vault's epoch length; caught since"),
 "C08-5": dict(
    change="x/leveragelp/genesis.go InitGenesis: the id counter is read off the LAST imported position instead of the maximum over all",
    needs="positions of several owners with id gaps, the highest id not last in store order (owner address first), an export/import of the genesis, then a new open",
    caught_by="C08.position_eq_committed, C08.pool_eq_sum, C08.counter in hist mode with genesis round trips; the id-counter correspondence",
    history="caught at first run"),
 "C10-5": dict(
    change="x/leveragelp/keeper/begin_blocker.go: the sweep caches each amm pool per page instead of re-reading it per position",
    needs="two positions of one pool in one sweep: the first is closed by the sweep, the second has a stop loss within the first's share of the pool below the market and an expired lock",
    caught_by="C10.third_party_close in mode c10 (sweep pairs)",
    history="MISSED at first (stop losses were far from the market, most worlds had the sweep off or slow, all positions were inside their one-hour lock); near-market stop losses, "
            "two quiet hours before the rounds, default sweep preferred and directed pairs (a liquidatable position ahead of one whose stop loss sits just under the market) added; caught since"),
 "C11-5": dict(
    change="x/accountedpool/keeper/hooks_amm.go UpdateAccountedPoolOnAmmChange: early return for pools whose UseOracle is off",
    needs="governance switches UseOracle off on a pool that has perpetual trading, then a swap, join or exit on it",
    caught_by="C11.total_eq in hist mode with pool-parameter governance (VERIF_GOVPOOL run)",
    history="MISSED at first (C11 had no run with pool-parameter governance, which round 4 had added for C12); run added; caught since"),
 "C12-5": dict(
    change="x/commitment/keeper/commit_liquid_tokens.go CommitLiquidTokens: a second commit with the same unlock time tops up the existing lock-up through a range copy (lost) and clears its own lock",
    needs="the same account joins the same oracle pool twice at one block time, then exits the second join's shares within the hour",
    caught_by="C12.lock_recorded in hist mode",
    history="MISSED at first (no account joined a pool twice in one block, and no clause said that a join's shares must be under a lock); double joins in one tx and clause C12.lock_recorded added; caught since"),
 "C17-5": dict(
    change="x/tokenomics/keeper/msg_server_airdrop.go UpdateAirdrop: the governance check and the stored-owner check merged with && instead of ||",
    needs="an airdrop whose stored authority is not governance (genesis-imported), updated by that address",
    caught_by="C17.refused in mode c17",
    history="caught at first run"),
 "C19-5": dict(
    change="x/assetprofile/keeper: denom -> base denom hints memoised in process memory (validated against the store, so values stay right, but gas differs between a warm and a cold node)",
    needs="a restart (or different query traffic) between the first lookup of a denom and a later transaction that looks it up again; replicas compared on gas used / results",
    caught_by="C19.replicas_agree in mode c19 (gas used per tx is part of what the replicas are compared on)",
    history="caught at first run"),
 "C02-5": dict(
    change="x/amm/keeper/pool_share.go MintPoolShareToAccount: returns right after minting when the share denom's asset-profile entry has commit_enabled=false",
    needs="somebody registers the NEXT pool's share denom with commitments off (MsgAddEntry is permissionless) before the pool exists; the pool is then created and joined: liquid, uncustodied shares",
    caught_by="C02.shares_agree in scenario c02-preregistered-share-denom",
    history="MISSED at first twice over: no history created a pool after a stranger's MsgAddEntry (scenario added), and the driver examined only share denoms that somebody had committed "
            "(shares nobody committed are exactly the defect): the driver's denom list now includes every share denom in the supply or in a pool's total; caught since"),
 "C05-5": dict(
    change="x/amm/types/pool_exit_pool.go processExitPool: DecreaseLiquidity (rejects only negative balances) instead of the per-asset update that also rejected zero",
    needs="a single-denom exit from an oracle pool whose value equals exactly the whole reserve of that denom",
    caught_by="C05.oracle_exit_never_empty in mode c05",
    history="caught at first run"),
 "C06-5": dict(
    change="stablestake Bond writes TotalValue after its hooks from the copy read at the top; leveragelp GetPositionsForAddress settles interest (two cooperating sites)",
    needs="the bonder owns a leveraged position with unsettled interest and it is the address's first hooked action of the day (tier portfolio)",
    caught_by="C06.vault_equation in hist mode",
    history="caught at first run"),
 "C09-5": dict(
    change="x/perpetual/keeper/pool_health.go CheckMinimumCustodyAmt: the first (liabilities) instead of the second (custody) result of GetPerpetualPoolBalances",
    needs="a pool whose custody of one asset is a large share of the amm balance, then an exit, swap or open that leaves less than the custody",
    caught_by="C09.custody_backed in the saturation scenario and whale histories",
    history="caught at first run"),
 "C13-5": dict(
    change="x/amm/keeper/apply_join_pool_state_change.go: returns before the hooks when the treasury cannot pay the whole bonus",
    needs="a single-sided join of the under-weight asset into an oracle pool beyond the weight threshold with an empty treasury: masterchef's deposit hook never runs",
    caught_by="C13.block_credit and C13.solvent in hist mode",
    history="caught at first run"),
 "C14-5": dict(
    change="x/commitment/types/commitments.go VestedSoFar: an int64 fast path whose product amount x elapsed blocks wraps",
    needs="a vesting whose amount fits 64 bits while amount x elapsed blocks does not",
    caught_by="C14.complete in mode c14",
    history="MISSED at first (amounts were below 2^40 or above 2^64); amounts between 2^41 and 2^63 and at the edges of the 64-bit range added; caught since"),
 "C15-5": dict(
    change="x/amm/keeper/keeper_join_pool_no_swap.go: the REQUESTED share amount is minted instead of the computed one (non-oracle pools)",
    needs="a join of a non-oracle pool whose requested shares differ from what the deposit is worth (single-sided join, or amounts that do not map to whole tokens)",
    caught_by="C15.share_paired in hist mode",
    history="caught at first run (by the clause added in round 4)"),
 "C16-5": dict(
    change="x/oracle/oracle.go handleOraclePacket: the BandChain answer is matched with the LAST acknowledged request instead of the request id it carries",
    needs="two BandChain requests in flight with different symbol lists of the same length, the answer to the older one delivered after the newer was acknowledged",
    caught_by="C16.newest in mode c16 (BandChain acknowledgement and answer packets through the IBC callbacks)",
    history="MISSED at first (the oracle model and harness covered the feeders' messages only); the BandChain path is now modelled (bandAck / bandAnswer, theorems band_answer_writes, "
            "band_prices_shape, band_ack_registry) and driven with several requests in flight and late answers; caught since"),
 "C18-5": dict(
    change="x/amm/keeper/route_exact_amount_out.go: the recover guard moved below the estimation step",
    needs="an exact-out request queued against a very unevenly weighted pool, then an exit in the same block that leaves the out-side barely above the request: the power routine overflows in end-block",
    caught_by="C18.block_ok in scenario c18-exact-out-on-shrunk-pool",
    history="MISSED at first (no pool of the standard world has an exponent large enough to overflow); scenario with a 19:1 pool added; caught since"),
 "C20-5": dict(
    change="x/tradeshield/keeper/pending_perpetual_order.go RemovePendingPerpetualOrder: also decrements the counter that AppendPendingPerpetualOrder uses as the next id",
    needs="two owners with pending perpetual orders, the earlier one removed, then a new order while the later one is still pending",
    caught_by="C20.cancel_returns_all in hist mode; the order-id correspondence (every pending id below the counter)",
    history="caught at first run"),
 "C01-6": dict(
    change="x/amm/keeper/update_pool_for_swap.go UpdatePoolForSwap: the book is reduced by the pool's share of the weight-breaking fee, the bank by the treasury's share",
    needs="an oracle pool, a swap that worsens its weights, and governance having moved amm WeightBreakingFeePortion off 0.5 (at 0.5 the two shares are the same number)",
    caught_by="C01.reserve_eq_held in amm-focused histories with targeted amm-parameter governance (VERIF_GOVAMM)",
    history="MISSED at first (no history ever changed the amm module's parameters); govAmmShock added (WeightBreakingFeePortion / WeightRecoveryFeePortion / multiplier moved early in the history and now and then); caught since"),
 "C02-6": dict(
    change="x/amm/keeper/keeper_join_pool_no_swap.go JoinPoolNoSwap: the shares minted by an all-asset join are capped at the requested amount after pool.JoinPool has added the uncapped amount to TotalShares",
    needs="an all-asset join of a non-oracle pool whose requested share amount is off the token grid, so that the per-asset round-up computes more shares than asked",
    caught_by="C02.shares_agree in hist mode",
    history="caught at first run"),
 "C03-6": dict(
    change="x/amm/keeper/keeper_swap_exact_amount_out.go InternalSwapExactAmountOut: the price is computed on the block's pool snapshot instead of the live pool",
    needs="a constant-product pool and, in ONE block, an operation that sets the snapshot, a change of the reserves, and then an exact-out swap",
    caught_by="C03.constant_product_not_decreasing (driver C03H) in amm-focused histories with swap bursts",
    history="MISSED at first (the differential mode drives x/amm/types, the keeper's choice of pool was out of reach; two swaps on one pool in one block were rare); clause added (equal-weight pools: the product of the reserves does not fall in a block without joins/exits, one base unit per transfer allowed) together with the ops amm.swapBurst and the sticky pool of multi-transaction blocks; caught since"),
 "C04-6": dict(
    change="x/amm/keeper/route_exact_amount_in.go RouteExactAmountIn: a hop that stays in the denom it is handed is skipped",
    needs="an exact-in request whose LAST route entry repeats the previous out denom: no executed hop is the last one, so nothing pays the recipient and the stated minimum is never applied",
    caught_by="C04.exact_in_min_out in mode c04 (degenerate routes)",
    history="MISSED at first (routes never named a hop twice); degenerate routes added to the request generator (last hop twice for exact-in, first hop twice for exact-out); caught since"),
 "C05-6": dict(
    change="x/amm/keeper/keeper_join_pool_no_swap.go JoinPoolNoSwap: mints the share amount the message asked for instead of the amount pool.JoinPool computed",
    needs="a single-asset join of a non-oracle pool with a stated share amount larger than the deposit buys (the single-asset path never sizes the deposit from it)",
    caught_by="C05.join_no_more_than_deposit_ratio (driver C05H) in histories whose single-sided joins state a share amount",
    history="MISSED at first (single-sided joins always stated 0 shares; C05H judged exits only); clause added (non-oracle pools: minted/total <= deposit/reserve for some deposited asset) and stated share amounts on single-sided joins; caught since"),
 "C06-6": dict(
    change="x/stablestake/types/params.go + keeper/msg_server_update_params.go: the stored TotalValue is copied into the proposal's params through a value-receiver helper (the copy is discarded)",
    needs="a governance MsgUpdateParams of stablestake whose TotalValue field differs from the stored one when it executes (any proposal drafted before the vault's latest deposit, withdrawal or interest accrual)",
    caught_by="C06.vault_equation in ss-focused histories with vault governance from a stale draft (VERIF_GOVSS)",
    history="MISSED at first (the vault governance of history mode read the parameters in the very moment it re-sent them); the draft is now the parameters as they were at the previous proposal; run added to C06; caught since"),
 "C07-6": dict(
    change="x/stablestake/keeper/debt.go Borrow: the cap is max(0.9, Params.MaxLeverageRatio) through a new helper",
    needs="governance sets stablestake MaxLeverageRatio above 0.9 (validation accepts any non-negative value); then a borrow between 90 % and the new ratio",
    caught_by="C07.cap in mode c07 (governance drafts that move MaxLeverageRatio)",
    history="MISSED at first (the stale-draft governance of mode c07 never changed a parameter); half of the drafts now set MaxLeverageRatio to one of 0, 0.5, 0.9, 0.95, 1, 3; caught since"),
 "C08-6": dict(
    change="x/leveragelp/keeper/position.go GetPositions: the decode variable is shared by all entries of a page (every pointer describes the last record)",
    needs="two or more open positions in one sweep page, the last one (by owner address) liquidatable: it is closed on the first visit and written back on the second",
    caught_by="C08.counter, C08.pool_eq_sum, C08.position_eq_committed in hist mode",
    history="caught at first run"),
 "C09-6": dict(
    change="x/amm/keeper/abci.go ExecuteSwapRequests: a request with no opposite request is applied without a cache context; a failure after effects is only logged",
    needs="long custody and short liabilities in one asset; two exact-out requests in one block, each affordable by price, the second refused by the perpetual hook (pool would hold less than the custody) after it has been applied",
    caught_by="C09.custody_backed in scenario c09-swaps-of-one-block-against-custody; C04.exact_in_min_out (a two-hop request whose second hop fails keeps its first hop) caught it at first contact",
    history="MISSED by C09 at first (caught by C04 at once); random exact-out pairs near the custody (op perp.swapOutPair) did not reach it in a quick run — positions are small against the pools —, the directed scenario does; caught since"),
 "C10-6": dict(
    change="x/perpetual/keeper/process_mtp.go CheckAndCloseAtTakeProfit: a nil or zero take-profit price is replaced by the 'infinite' default before the comparison",
    needs="a SHORT with take-profit price 0 (no take profit): price <= 10^40 always holds, so anyone can close it through the take_profit list",
    caught_by="C10.third_party_close in mode c10 (shorts opened without a take profit)",
    history="MISSED at first (every short was opened with a take profit); a quarter of the shorts now have none; caught since"),
 "C11-6": dict(
    change="x/perpetual/keeper/close_position.go ClosePosition: a position whose custody has been used up is settled in full and the handler returns before the AfterPerpetualPositionClosed hook",
    needs="a position whose custody was consumed by interest (years untouched), closed by its owner with MsgClose",
    caught_by="C11.nonamm_eq, C11.total_eq in hist mode (long gaps)",
    history="caught at first run"),
 "C12-6": dict(
    change="x/commitment/genesis.go ExportGenesis: lock-ups whose unlock time is not after the context's block time are dropped from the export",
    needs="the node's real export path: app/export.go builds the context from the height alone, so the block time is the zero time and every running lock-up counts as expired",
    caught_by="C12.lock_kept in cm-focused histories with genesis round trips",
    history="MISSED at first (the round trip exported on a context with the block's time); genesisRoundTrip now exports on a height-only header like app/export.go; caught since"),
 "C13-6": dict(
    change="x/masterchef/keeper/msg_server.go ClaimRewards: RewardPending is cleared only after the transfer, in a second loop",
    needs="one MsgClaimRewards that names the same pool twice: the credit is paid once per mention",
    caught_by="C13.block_credit, C13.solvent in hist mode (claims that name a pool twice)",
    history="MISSED at first (claims named each pool at most once); a quarter of the claims now repeat one of their ids (masterchef and leveragelp); caught since"),
 "C14-6": dict(
    change="x/commitment/keeper/msg_server_vest_now.go VestNow: an 'empty' commitments record (no claimed, no committed — vesting entries forgotten) is removed",
    needs="vest-now enabled, a running vesting entry, nothing committed, and a vest-now of exactly the rest of the claimed bucket",
    caught_by="C14.complete, C14.conservation in mode c14",
    history="caught at first run"),
 "C15-6": dict(
    change="x/commitment/keeper/msg_server_vest_now.go VestNow: the mint is gated on the request's base denom being Eden instead of the vesting denom being ELYS",
    needs="governance enables vest-now and points Eden's vesting at a denom other than uelys; then a vest-now of claimed Eden mints that denom",
    caught_by="C15.mint_burn_sites (the regenerated site table now carries the guards of each call) and C15.external_conserved in cm-focused histories with vest governance",
    history="MISSED at first (the site table recorded the call, not what gates it; no history used vest-now); guards added to the table, op cm.vestNow and govVestShock (VERIF_GOVVEST) added; caught since, with a failing block"),
 "C16-6": dict(
    change="x/oracle/keeper/msg_server_price.go FeedPrice: a report equal to the latest stored price of that asset and source is not stored",
    needs="the same value reported twice in different blocks; the first entry expires while the second report is still live",
    caught_by="C16.newest in mode c16",
    history="caught at first run"),
 "C17-6": dict(
    change="x/tradeshield/keeper/msg_server_perpetual_order.go CancelPerpetualOrders: the batch checks that the sender owns ONE of the named orders",
    needs="one batch that names an order of the sender's own and somebody else's",
    caught_by="C17.owner_only in mode c17 (mixed batches)",
    history="MISSED at first (a non-owner's batch named the owner's object only); for messages that name several objects the second account now also creates an object of its own and sends [own, other's] and [other's, own]; caught since"),
 "C18-6": dict(
    change="x/masterchef/keeper/abci.go CollectGasFees: the consumer's part of the protocol share is a second rounded portion instead of the remainder",
    needs="governance sets ProviderStakingRewardsPortion to a value where halves appear (0.3, 0.5) and a block's fee total hits the rounding boundary (1 total in 400 / in 80): the last transfer asks for one unit more than is left",
    caught_by="C18Src.gas_fees_sent_le_collected no longer checks (the collector is regenerated from the source with its transfers); the search then found a failing block (C18.block_ok)",
    history="MISSED at first; CollectGasFees and CollectPerpRevenue are now translated from the source on every run with the trace of their bank transfers, and 'sent <= collected' is proved for all amounts and portions; caught since"),
 "C19-6": dict(
    change="x/commitment/types/commitments.go DeductFromCommitted: the running lock-ups are rebuilt by ranging over a map keyed by unlock time",
    needs="an account with two or more running lock-ups of one denom with different unlock times, and a deduction on that denom",
    caught_by="C19.ranges_as_expected (regenerated table of map ranges) — reported with no-failing-input-found",
    history="caught at first run as a broken proof obligation; the quick replicas did not diverge"),
 "C20-6": dict(
    change="x/tradeshield/types/order.go GetSpotOrderAddress / GetPerpOrderAddress: one helper derives the escrow account from the order id alone",
    needs="a spot order and a perpetual order with the same numeric id pending at the same time; one of them cancelled or executed",
    caught_by="C20.escrow_holds in hist mode",
    history="caught at first run"),
 "C01-7": dict(
    change="x/perpetual/keeper/msg_server_close_positions.go ClosePositions: the amm pool is looked up once per pool id and kept in a map for the rest of the Liquidate loop",
    needs="one MsgClosePositions whose Liquidate list names two positions of one pool: the earlier one really force-closed (the close saves a fresh pool), the later one settling interest on the stale copy (which overwrites the reserve reduction)",
    caught_by="C01.reserve_eq_held, C01.liquidity_eq_sum in perp-focused histories with frequent batch closes",
    history="MISSED at first (C01 had no position-focused run and sharp moves with every position named in one message came once in 25 blocks); perp-focused run added to C01, batch closes every 9th block in position-focused histories; caught since"),
 "C03-7": dict(
    change="x/amm/types/calc_out_amt_given_in.go CalcOutAmtGivenIn: the fee is taken as a rounded whole amount of the input instead of as a factor",
    needs="an exact-in swap on a constant-product pool with a fee, input with in*fee fractional below one half (dust: no fee at all)",
    caught_by="C03.out_le_exact, C03.out_le_exact_one_unit, C03.weighted_within_1e8 in mode c03",
    history="caught at first run"),
 "C05-7": dict(
    change="x/amm/keeper/apply_join_pool_state_change.go ApplyJoinPoolStateChange: a guard clause returns, when no bonus can be paid, before the AfterJoinPool hook",
    needs="an oracle pool with an accounted pool, weights off target, a single-sided join that improves them with an empty rebalance treasury: the accounted balance is not refreshed and the next single-sided join is priced on a stale TVL",
    caught_by="C05.pricing_base_is_true_balance (driver C05H) in hist mode",
    history="caught at first run"),
 "C06-7": dict(
    change="x/stablestake/keeper/begin_blocker.go + interest_rate.go: all debts are settled at the epoch boundary, then the parameters read at the top of the begin-blocker are written back",
    needs="an open debt with interest accrued since its last interaction and an epoch-boundary block (every block with the default epoch length)",
    caught_by="C06.vault_equation in hist mode",
    history="caught at first run"),
 "C08-7": dict(
    change="x/leveragelp/keeper/msg_server_add_pool.go AddPool: a re-submission of an enabled pool with another leverage cap rebuilds the pool record (LeveragedLpAmount is not carried over)",
    needs="an enabled pool with open positions and a governance MsgAddPool for the same pool id with a different cap",
    caught_by="C08.pool_eq_sum in lp-focused histories with leveragelp pool governance (VERIF_GOVLP)",
    history="MISSED at first (no history sent a pool-lifecycle governance message of leveragelp); govLpShock added (re-submission with another cap, removal); caught since"),
 "C11-7": dict(
    change="x/perpetual/keeper/params.go + force_close_long.go / force_close_short.go: a new getter for EnableTakeProfitCustodyLiabilities returns BorrowInterestPaymentEnabled; the forced-close hooks use it",
    needs="two open positions in one pool, one closed through MsgClosePositions (any list): the accounted pool is refreshed with the take-profit formula",
    caught_by="C11.nonamm_eq, C11.total_eq in hist mode",
    history="caught at first run"),
 "C13-7": dict(
    change="x/masterchef/keeper/hooks_masterchef.go UpdateUserRewardPending (negative accrual clamped at 0) + x/stablestake/keeper/msg_server_bond.go Bond (AfterBond hooks before the commit)",
    needs="the stablestake reward pool has a positive accumulator and somebody bonds: the fresh shares are credited the pool's whole history",
    caught_by="C13.block_credit, C13.solvent in hist mode",
    history="caught at first run"),
 "C16-7": dict(
    change="x/oracle/keeper/price.go SetPrice: the write is skipped when the latest stored price of that asset and source has the same value",
    needs="the same value fed twice in a row and the first entry's lifetime running out while feeding continues",
    caught_by="C16.expired_served, C16.newest in mode c16",
    history="caught at first run"),
 "C20-7": dict(
    change="x/tradeshield/keeper/keeper.go GetAssetPriceFromDenomInToDenomOut: the market price of a pair is worked out once per block and stored",
    needs="two evaluations of one pair in one block with a price feed between them, the second order triggered by the earlier price only",
    caught_by="C20.trigger in scenario c20-price-moves-between-two-executions (the clause is now judged at the price in force when each request ran)",
    history="MISSED at first (feeds always came first in a block and the clause was not judged otherwise); the driver replays the block's feeds to know the price each execution request ran under, order-focused histories put feeds between transactions, and a directed scenario has two limit sells with a feed between their execution requests; caught since"),
 "C18-7": dict(
    change="x/masterchef/keeper/hooks_masterchef.go UpdateAccPerShare: the early return tests the amount instead of the committed total (the line below divides by the total)",
    needs="a reward pool whose share denom has no committed amount — the lending vault (pool 32767) before anybody has bonded —, a supported reward denom, and anybody's MsgAddExternalIncentive for it: every block of the period panics in masterchef's end-blocker",
    caught_by="C18.block_ok in scenario c18-external-incentive-before-first-bond-fresh-vault",
    history="MISSED at first (every world is seeded with two deposits into the vault, and incentives were funded for amm pools only); a world seeded without the vault deposits and a directed scenario added; caught since"),
 "C02-7": dict(
    change="x/amm/types/pool_join_pool.go JoinPool: TotalShares is increased by the fee-reduced share count before the weight-balance-bonus branch reassigns the returned count",
    needs="a single-asset join into an oracle pool further from its target weights than the threshold, with the scarce asset (the join earns the bonus)",
    caught_by="C02.shares_agree in hist mode",
    history="caught at first run"),
 "C04-7": dict(
    change="x/amm/keeper/keeper_swap_exact_amount_in.go InternalSwapExactAmountIn: the minimum-out check counts the nominal weight-recovery bonus (same site and mechanism as C04-2)",
    needs="an oracle pool off its target weights, a recovering swap, a rebalance treasury that cannot pay the bonus, a minimum between the two outputs",
    caught_by="C04.exact_in_min_out in mode c04",
    history="caught at first run"),
 "C07-7": dict(
    change="x/stablestake/keeper/msg_server_unbond.go Unbond: the stated value is reduced by the number of shares burned instead of by the amount paid out",
    needs="a redemption rate above 1 (a loan has accrued interest), an unbond, then another redemption: it is paid at an inflated rate out of the other lenders' cash",
    caught_by="C07.redeem_fair in mode c07",
    history="caught at first run only as a broken correspondence without a failing input (the rate rises, so none of the clauses about a falling rate fired); clause redeem_fair added (shares are redeemed at no more than their share of cash + outstanding loans, whatever the vault states); caught with a failing input since"),
 "C09-7": dict(
    change="x/perpetual/keeper/hooks_amm.go: the amm hooks check the pool balance against the LONG side's custody only (a local helper instead of CheckLowPoolHealthAndMinimumCustody)",
    needs="open short positions (custody in the base currency) and a liquidity exit that takes the pool's base-currency holdings below that custody while the pool-health threshold still passes",
    caught_by="C09.custody_backed in scenario c09-liquidity-exit-against-short-custody",
    history="MISSED at first (with the default pool-health threshold an exit large enough to dip under the shorts' custody is refused by the health test, which the changed helper keeps); a directed scenario with a governance-lowered PoolOpenThreshold, two large shorts and the pool creator's exits added; caught since"),
 "C10-7": dict(
    change="x/leveragelp/keeper/msg_server_close_positions.go ClosePositions: each amm pool is read once per request; later stop-loss entries are judged on the LP price from before the earlier closes of the same request",
    needs="one MsgClosePositions naming two positions of one pool: the earlier one really closes (the LP price rises), the later one has a stop loss between the stale and the true price",
    caught_by="C10.third_party_close in mode c10 (directed pair inside one request)",
    history="MISSED at first (mode c10 predicted prices once per request); a directed pair added for worlds with the sweep off: the first entry is made liquidatable, its close is run alone on a discarded copy to learn the price it leaves, the second entry's stop loss is put between the two prices, and — when the first entry really closed — the second is judged at the price after it; caught since"),
 "C12-7": dict(
    change="x/amm/keeper/pool_share.go MintPoolShareToAccount: no new lock-up entry when one with a later unlock time exists already",
    needs="the same address joining an oracle pool twice at the same block time (or a leveraged open followed by a consolidating open), then exiting the second deposit within the hour",
    caught_by="C12.lock_recorded in hist mode (same-block double joins)",
    history="caught at first run"),
 "C14-7": dict(
    change="x/commitment/genesis.go ExportGenesis: vesting entries whose schedule has elapsed are dropped from the export (the existing clean-ups drop fully CLAIMED entries)",
    needs="an entry whose schedule has elapsed and that is not fully claimed, and a restart from the exported state",
    caught_by="C14.complete, C14.conservation in mode c14 (genesis round trips of the commitment module between the operations)",
    history="MISSED at first (mode c14 never exported and re-imported); round trips added; caught since"),
 "C15-7": dict(
    change="x/commitment/keeper/msg_server_cancel_vest.go CancelVest: the cancellable amount of a schedule is capped by its total instead of by its unreleased remainder",
    needs="vest, claim part, then cancel more than the remainder (at most the total): Eden is handed back for ELYS already minted, and vesting it again mints ELYS again",
    caught_by="C15.native_released_le_eden_given_up in cm-focused histories (cancels of more than is left); C14.complete / C14.conservation caught it at first contact",
    history="MISSED by C15 at first (every mint happened in a ClaimVesting, a permitted site; cancels never asked for more than the remainder + 1); clause added (what users' claims have released is covered by the Eden vested and not handed back) and over-large cancels generated; caught since"),
 "C17-7": dict(
    change="x/oracle/keeper/msg_server_create_asset_info.go CreateAssetInfo: the 'already listed?' lookup is made under the lower-cased denom, the write under the denom as sent",
    needs="a listed denom with upper-case characters — every IBC voucher on a live chain —: anybody's MsgCreateAssetInfo overwrites the listing",
    caught_by="C17.existing_object_overwritten in mode c17 (a listed voucher among the targets)",
    history="MISSED at first (the listed objects the permissionless create messages were aimed at all had lower-case denoms); a listed IBC voucher added; caught since"),
 "C19-7": dict(
    change="x/masterchef/keeper/abci.go ProcessExternalRewardsDistribution: incentives are grouped in a map by reward denom and the map is ranged over",
    needs="two incentives of different reward denoms on one pool becoming active in the same block: the order of the pool's ExternalRewardDenoms follows map iteration",
    caught_by="C19.ranges_as_expected (regenerated table of map ranges) — reported with no-failing-input-found",
    history="caught at first run as a broken proof obligation; the quick replicas did not diverge"),
 # ---- round 8
 "C01-8": dict(
    change="x/amm/keeper/keeper_join_pool_no_swap.go JoinPoolNoSwap (oracle branch): the chain-wide denom liquidity is raised by the amounts OFFERED (tokenInMaxs) instead of the amounts joined",
    needs="an oracle pool joined with both assets at once, off the ratio of the reserves (the sender keeps the remainder of one asset)",
    caught_by="C01.liquidity_eq_sum in hist mode",
    history="caught at first run"),
 "C02-8": dict(
    change="x/commitment/genesis.go ExportGenesis: a loop over IterateCommitments that means to skip empty records returns true for them, which STOPS the iteration: every record that sorts after the first empty one is left out of the export",
    needs="an account that joined and later left with all its shares (an empty commitments record) sorting before a holder, then a restart from the exported state",
    caught_by="C02.shares_agree in amm-focused histories with genesis round trips (the commitment module's too, imported into an emptied store)",
    history="MISSED at first, for two reasons: the round trip imported on top of the live store (a record the export leaves out simply stayed), and amm-focused histories round-tripped the amm module only. Round trips now empty the module's own store before the import, as a restarted chain does (for the modules whose export is complete on the unchanged tree - measured with mode gentrip), and amm-focused histories round-trip the commitment module as well; caught since"),
 "C03-8": dict(
    change="x/amm/keeper/route_exact_amount_in.go RouteExactAmountIn: all pools of a route are resolved before the first hop (same mechanism as C01-4, found independently)",
    needs="an exact-in route that goes through one pool twice, then another swap on that pool: it is priced on reserves that no longer match what the pool holds",
    caught_by="C03.constant_product_of_holdings_not_decreasing (driver C03H); C01.reserve_eq_held / C01.liquidity_eq_sum caught it at first contact",
    history="MISSED by C03 at first (every swap is priced correctly on the book it is handed; it is the book that is wrong, which is C01's clause); the constant-product clause of C03H is now also evaluated on the pool's real holdings; caught since"),
 "C04-8": dict(
    change="x/amm/keeper/update_pool_for_swap.go UpdatePoolForSwap: the two addresses of the weight-recovery bonus transfer are swapped (the recipient pays the treasury)",
    needs="an oracle pool beyond the weight threshold, a swap in the recovering direction, a treasury holding the out denom",
    caught_by="C04.exact_in_min_out, C04.exact_out_credit, C04.only_stated_denoms in mode c04",
    history="caught at first run"),
 "C05-8": dict(
    change="x/amm/types/pool.go UpdatePoolAssetBalance: rejects only a negative balance (it rejected zero too)",
    needs="a single-sided exit from an oracle pool worth exactly the whole reserve of that asset",
    caught_by="C05.oracle_exit_never_empty in mode c05",
    history="caught at first run. The author's write-up ends with a remark about the UNCHANGED code (a join naming one denom twice): shown to be a genuine defect and repaired, a4286a6"),
 "C06-8": dict(
    change="x/stablestake/keeper/params.go + keeper.go: the decoded parameters (TotalValue among them) are cached in memory per block height; a rolled-back transaction leaves its value in the cache",
    needs="a loan with interest pending, an operation that accrues it and is then rolled back, and another write of the vault in the same block",
    caught_by="C06.vault_equation in hist mode",
    history="caught at first run"),
 "C07-8": dict(
    change="x/stablestake/keeper/interest_rate.go InterestRateComputation: the floor of the rate applies only while the vault's loan figure is positive",
    needs="coins sent straight to the vault's account in excess of the outstanding loans, a live debt, a dozen epochs and a debt refresh: the rate goes below zero and the redemption rate falls",
    caught_by="C07.others_unharmed (driver C07H) in scenario c07-inflow-exceeding-loans; C07Src.interest_rate_in_band (the regenerated definition no longer stays in the band) at first contact",
    history="caught at first run only as a broken proof obligation without a failing input (nothing in the op sequences of mode c07 or in the histories sent coins straight to the vault's account); a directed scenario added (a leveraged position, a swap whose recipient is the vault's address, 24 epochs, a refresh of the debt): the vault's stated value falls in a block without a redemption; caught with a failing input since"),
 "C08-8": dict(
    change="x/leveragelp/keeper/msg_server_update_params.go UpdateParams: pools whose own cap exceeds a lowered module-wide LeverageMax are re-created with NewPool (their leveraged total is reset to zero)",
    needs="governance lowering leveragelp's LeverageMax below a pool's cap while the pool has open positions",
    caught_by="C08.pool_eq_sum in lp-focused histories with leveragelp governance (VERIF_GOVLP)",
    history="MISSED at first (the leveragelp governance of the histories re-submitted and removed pools but never re-sent the module's parameters); module-parameter updates with another leverage cap added; caught since"),
 "C09-8": dict(
    change="x/perpetual/genesis.go InitGenesis: the open-position counter is set to the highest id handed out instead of the number of imported positions",
    needs="a restart from an exported state taken after some position below the highest id was closed",
    caught_by="C09.counter in perp-focused histories with genesis round trips",
    history="caught at first run"),
 "C10-8": dict(
    change="x/perpetual/keeper/process_open.go ProcessOpen: the health check of a new leg is skipped when CheckSameAssetPosition finds a matching position (which ignores the pool id, while Open discards a match in another pool)",
    needs="two perpetual pools trading one asset, the owner holding a matching position in the other pool, and an open whose health is at or below the safety factor",
    caught_by="C10.open_healthy in mode c10; C10Src.gen_open_starts_healthy (the window of ProcessOpen no longer equals openAccepted) since round 8",
    history="caught at first run"),
 "C11-8": dict(
    change="x/amm/keeper/update_pool_for_swap.go UpdatePoolForSwap: a guard clause returns from the whole function when the payable bonus is zero (SetPool, the event and the AfterSwap hook are skipped)",
    needs="an oracle pool beyond the weight threshold, a recovering swap, and a treasury that cannot pay the bonus",
    caught_by="C11.total_eq in hist mode",
    history="caught at first run"),
 "C12-8": dict(
    change="x/amm/keeper/keeper_exit_pool.go ExitPool: an exit from a pool that is not an oracle pool AT EXIT TIME skips the lock-up check",
    needs="shares locked by a join into an oracle pool, governance switching the pool's UseOracle off within the hour, the owner's exit",
    caught_by="C12.lock_kept in histories with pool-parameter governance (VERIF_GOVPOOL)",
    history="caught at first run"),
 "C13-8": dict(
    change="x/masterchef/genesis.go InitGenesis: user reward records with RewardPending = 0 are skipped (the clean-up it copies tests RewardDebt)",
    needs="a holder who has just claimed, or joined after rewards had accrued (debt > 0, pending = 0), and a restart from the exported state: the debt is forgotten and the pool's whole history is credited again",
    caught_by="C13.block_credit, C13.solvent in histories with genesis round trips (imported into an emptied store)",
    history="MISSED at first (the round trip imported on top of the live store: a skipped record simply stayed); round trips now empty the module's own store first; caught since"),
 "C14-8": dict(
    change="x/commitment/keeper/commitments.go GetAllCommitments: the record variable is hoisted out of the loop; every element of the returned slice points at the last record",
    needs="two or more commitments records, an unfinished vesting on one that is not the last, and a restart from the exported state",
    caught_by="C14.complete, C14.conservation in mode c14 (genesis round trips into an emptied store)",
    history="MISSED at first (same reason as C13-8); caught since"),
 "C15-8": dict(
    change="x/amm/keeper/pool_share.go BurnPoolShareFromAccount: everything the amm module account holds is burnt instead of the shares just moved in (the pool creation fees, ELYS, sit there)",
    needs="a pool created through MsgCreatePool while the creation fee was positive, then any exit",
    caught_by="C15.mint_burn_sites in scenario c15-pool-created-with-fee-then-exits; C15.sites_as_expected (the regenerated site table) at first contact",
    history="caught at first run only as a broken proof obligation without a failing input (the argument shape of the burn in the regenerated table changed; every world of the histories has a creation fee of 0); a directed scenario added (a listed creator, a positive fee, the message, exits); caught with a failing input since"),
 "C16-8": dict(
    change="x/oracle/keeper/msg_server_price_feeder.go SetPriceFeeder: the not-a-feeder refusal became a nothing-to-change early return; an unknown account falls through and is created as a feeder",
    needs="MsgSetPriceFeeder{IsActive: true} from an account that is not on the list, then its MsgFeedPrice",
    caught_by="C16.feeder_gate in mode c16",
    history="caught at first run"),
 "C17-8": dict(
    change="x/amm/keeper/msg_server_create_pool.go CreatePool: the allow-list check moved into a fee helper that returns early when the creation fee is not positive",
    needs="amm PoolCreationFee = 0 (governance-settable; every world of the harness) and a sender outside AllowedPoolCreators",
    caught_by="C17.list_gated_refused in mode c17",
    history="caught at first run"),
 "C18-8": dict(
    change="x/stablestake/keeper/epoch.go GetEpochPosition: the guard against a non-positive epoch length became a guard against a negative one (validation accepts 0)",
    needs="stablestake EpochLength = 0 (a governance update that passes validation): height % 0 panics in the begin-blocker",
    caught_by="C18.block_ok in scenario c18-every-numeric-parameter-at-zero",
    history="MISSED at first (the random governance shocks of a quick run did not draw this field with this value); a directed sweep added: every numeric field of every parameter-update message, one at a time, set to zero, applied when validation lets it through, two blocks after each (48 settings applied on the unchanged tree, none halts); caught since"),
 "C19-8": dict(
    change="x/tier/keeper/portfolio.go GetDateFromContext: the block time is rebuilt with time.Unix, i.e. in the node's LOCAL time zone; the date is part of a store key",
    needs="a replica whose process time zone is not UTC, a block whose local date differs from the UTC date, and a first portfolio record of that day",
    caught_by="C19.replicas_agree in mode c19 (the fresh-process replica runs under TZ=Asia/Tokyo / America/New_York)",
    history="MISSED at first (all replicas ran in the sandbox's UTC); the replica that is a fresh OS process per block now runs in another time zone; caught since"),
 "C20-8": dict(
    change="x/tradeshield/keeper/msg_server_perpetual_order.go CancelPerpetualOrders: the batch loop builds each inner cancel with the STORED owner of the order, so the owner guard compares the owner with itself",
    needs="MsgCancelPerpetualOrders from somebody who does not own a listed order",
    caught_by="C20.owner_only in ts-focused histories (batch cancels); C20Src.gen_free_batch_cancel (the inner cancel is no longer made in the name of the message's own signer field) since the loop bodies were translated",
    history="MISSED at first (the grammar had the single-order cancels only); batch cancels of one to three orders, now and then with a stranger's order or a stranger's signature, added with the owner-only clause for them; caught since"),
}

root = os.path.join(os.path.dirname(os.path.dirname(os.path.abspath(__file__))), "seeded")
for sid, m in sorted(T.items()):
    d = os.path.join(root, sid)
    if not os.path.isdir(d):
        print("missing", sid); continue
    p = sid.split("-")[0]
    conf = ""
    try: conf = open(os.path.join(d, "confirm.log")).read().strip().splitlines()[-1]
    except Exception: pass
    teeth = ""
    try: teeth = open(os.path.join(d, "teeth.log")).read().strip()
    except Exception: pass
    meta = dict(id=sid, property=p, origin="independent sub-agent given only the property text and a scratch worktree under /tmp",
                change=m["change"], needs_to_manifest=m["needs"],
                ran=[CONFIRM.format(p=p), TEETH.format(id=sid, p=p)],
                confirm_result=conf, teeth_result=teeth, caught_by=m["caught_by"], history=m["history"],
                files=["patch.diff", "demo/", "SEEDED.md", "confirm.log", "demo_with_change.log", "demo_without_change.log"])
    json.dump(meta, open(os.path.join(d, "meta.json"), "w"), indent=1)
    print("wrote", sid)
