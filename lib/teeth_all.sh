#!/bin/sh
# lib/teeth_all.sh — the whole catch matrix: every stored seeded change and the revert of every "fix:" commit of /repo is applied to
# a scratch worktree under /tmp and the registered quick check(s) of its property are run against it (lib/teeth.sh). One line per
# (change, check) goes to seeded/TEETH.txt; a seeded change's lines also go to seeded/<id>/teeth.log. Takes about an hour.
cd "$(dirname "$0")/.."; V=$(pwd); TAG=${TEETH_TAG:-}
OUT=seeded/TEETH.txt; : > $OUT.tmp
for d in seeded/C*-*/; do
  id=$(basename $d); p=${id%%-*}
  lib/teeth.sh sd$TAG-$id $V/$d/patch.diff $p 2>&1 | grep "^sd" | tee $d/teeth.log >> $OUT.tmp
done
while read c props; do
  lib/teeth.sh rv$TAG-$c -R:$c $props 2>&1 | grep "^rv" >> $OUT.tmp
done <<LIST
334a3dd C14
2cde87e C01 C05
ece23ef C08 C01
654ecf9 C09
aa6143c C11
70dbce3 C11
2c320c0 C11
9e4b321 C13
9e8da3f C18
8fc1366 C04
b33fde3 C20
8e2f9f4 C13
6efc995 C10
ec147cb C09
ebead6e C13
e07ea76 C18
932554d C18
7acf6c7 C18
f5b320c C18
ddb7a7f C18
5353f3f C18
78eb247 C01
41f14ef C09 C08
LIST
mv $OUT.tmp $OUT
python3 lib/seeded_meta.py >/dev/null
