#!/bin/sh
# lib/seeded_confirm.sh <Cxx> [n]  — take the seeded change an independent sub-agent left in /tmp/seed-<Cxx>, store it under
# /verif/seeded/<Cxx>-<n>/ (patch.diff, demo test, SEEDED.md), and confirm on a fresh scratch worktree of /repo that it
# compiles, that the touched packages' existing tests pass, and that the demo fails with it and passes without it.
set -u
P=$1; N=${2:-1}
SRC=${SEED_SRC:-/tmp/seed-$P}
DST=$(cd "$(dirname "$0")/.." && pwd)/seeded/$P-$N
export GOFLAGS=-mod=mod GOPROXY=off GOSUMDB=off GOTOOLCHAIN=local
mkdir -p "$DST"
git -C "$SRC" diff > "$DST/patch.diff"
[ -s "$DST/patch.diff" ] || { echo "$P: empty patch"; exit 2; }
cp "$SRC/SEEDED.md" "$DST/SEEDED.md" 2>/dev/null
DEMOS=$(git -C "$SRC" ls-files --others --exclude-standard | grep '_test\.go$')
mkdir -p "$DST/demo"
for d in $DEMOS; do mkdir -p "$DST/demo/$(dirname $d)"; cp "$SRC/$d" "$DST/demo/$d"; done
WT=/tmp/conf-$P-$N
git -C /repo worktree remove --force "$WT" >/dev/null 2>&1
git -C /repo worktree add -q --detach "$WT" HEAD || exit 3
RES="$DST/confirm.log"; : > "$RES"
cd "$WT"
git apply "$DST/patch.diff" || { echo "$P: patch does not apply to /repo HEAD" | tee -a "$RES"; cd /; git -C /repo worktree remove --force "$WT"; exit 4; }
go build ./... >> "$RES" 2>&1; BUILD=$?
PKGS=$(git diff --name-only | grep '\.go$' | xargs -n1 dirname | sort -u | sed 's#^#./#')
MODS=$(git diff --name-only | grep -E '^(x/[^/]+|app)/' | sed -E 's#^(x/[^/]+|app)/.*#\1#' | sort -u | sed 's#^#./#; s#$#/...#')
go test -vet=off -count=1 $MODS >> "$RES" 2>&1; EXIST=$?
for d in $DEMOS; do mkdir -p "$(dirname $d)"; cp "$DST/demo/$d" "$d"; done
DPK=$(for d in $DEMOS; do echo "./$(dirname $d)"; done | sort -u)
go test -vet=off -count=1 $DPK > "$DST/demo_with_change.log" 2>&1; WITH=$?
git apply -R "$DST/patch.diff"
go test -vet=off -count=1 $DPK > "$DST/demo_without_change.log" 2>&1; WITHOUT=$?
cd /
git -C /repo worktree remove --force "$WT"
echo "$P-$N build=$BUILD existing_tests_of_touched_modules=$EXIST demo_with_change=$WITH(expect!=0) demo_without_change=$WITHOUT(expect 0) modules=$MODS" | tee -a "$RES"
