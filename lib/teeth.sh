#!/bin/sh
# lib/teeth.sh <name> <patchfile|-R:commit> <Cxx> [Cyy ...]
# Applies a change to a scratch worktree of /repo under /tmp, runs the named checks against it with all outputs
# redirected to /tmp/teeth-out/<name>, prints one line per check, removes the worktree.
set -u
VR=$(cd "$(dirname "$0")/.." && pwd)
NAME=$1; CHANGE=$2; shift 2
WT=/tmp/teeth-wt-$NAME
OUT=/tmp/teeth-out/$NAME
rm -rf "$OUT"; mkdir -p "$OUT"
git -C /repo worktree remove --force "$WT" >/dev/null 2>&1
git -C /repo worktree add -q --detach "$WT" HEAD || exit 2
case "$CHANGE" in
  -R:*) C=${CHANGE#-R:}; (git -C /repo show "$C" | git -C "$WT" apply -R 2>/dev/null) || (git -C /repo show "$C" | git -C "$WT" apply -R --3way >/dev/null 2>&1) || { echo "$NAME: cannot revert $C"; git -C /repo worktree remove --force "$WT"; exit 3; } ;;
  *) git -C "$WT" apply "$CHANGE" || { echo "$NAME: cannot apply $CHANGE"; git -C /repo worktree remove --force "$WT"; exit 3; } ;;
esac
for P in "$@"; do
  VERIF_REPO=$WT VERIF_OUTDIR=$OUT $VR/check "$P" --tier ${TEETH_TIER:-quick} > "$OUT/$P.log" 2>&1
  RC=$?
  V=$(grep -c "^VIOLATION" "$OUT/$P.log")
  NF=$(grep -c "no-failing-input-found" "$OUT/$P.log")
  CL=$(python3 - "$OUT" "$P" <<'PY'
import sys,glob,json
cl=set()
for f in glob.glob(sys.argv[1]+'/replays/'+sys.argv[2]+'-*.json'):
    try: cl.add(json.load(open(f)).get('clause') or 'no-failing-input-found')
    except Exception: pass
print(','.join(sorted(cl)))
PY
)
  echo "$NAME $P exit=$RC violations=$V nofailinginput=$NF clauses=$CL"
  rm -rf "$OUT/build"   # binaries and raw outputs: several GB per run; logs and replays stay
done
git -C /repo worktree remove --force "$WT"
# the generated Lean files were rewritten from the changed worktree: regenerate every one of them from /repo itself (not `git checkout`:
# a generated file that is not committed yet would keep the changed tree's content)
flock $VR/.check.lock sh -c "cd $VR/harness && VERIF_REPO=/repo sh gen_gomod.sh && VERIF_REPO=/repo sh $VR/lib/regen.sh >/dev/null 2>&1"
