#!/bin/sh
# lib/mutbuild.sh <name> <patchfile|-R:commit> — scratch worktree /tmp/mut-<name> of /repo with the change applied and a harness
# binary /tmp/mut-<name>.test built against it (for developing a check against a seeded change by hand). Remove both with
# lib/mutbuild.sh <name> --rm. harness/go.mod is pointed back at /repo afterwards.
set -u
V=$(cd "$(dirname "$0")/.." && pwd)
export GOFLAGS=-mod=mod GOPROXY=off GOSUMDB=off GOTOOLCHAIN=local
NAME=$1; CHANGE=$2; WT=/tmp/mut-$NAME
git -C /repo worktree remove --force "$WT" >/dev/null 2>&1; rm -f "$WT.test"
[ "$CHANGE" = "--rm" ] && exit 0
git -C /repo worktree add -q --detach "$WT" HEAD || exit 2
case "$CHANGE" in
  -R:*) git -C /repo show "${CHANGE#-R:}" | git -C "$WT" apply -R || exit 3 ;;
  *) git -C "$WT" apply "$CHANGE" || exit 3 ;;
esac
exec 9>$V/.check.lock; flock 9
cd $V/harness && VERIF_REPO=$WT sh gen_gomod.sh >/dev/null 2>&1 && go test -c -tags verif -o "$WT.test" . ; RC=$?
VERIF_REPO=/repo sh gen_gomod.sh >/dev/null 2>&1
exit $RC
