#!/usr/bin/env python3
"""lib/find_record.py <Cxx> <name> <change> <maxseed> <n> [--note TEXT] [--clause C] [KEY=VALUE ...]

<change> is a patch file or -R:<commit>. Builds the harness against a scratch worktree of /repo with the change applied
(lib/mutbuild.sh), runs history mode with seeds 1..maxseed (14 at a time) until the property's driver reports a violation
(of clause C if given), records that history up to the failing step as a corpus entry (lib/record_corpus.py, generated on the
changed tree), and checks that replaying the stored history reports the violation on the changed tree and nothing on /repo."""
import sys, os, json, subprocess, tempfile
from concurrent.futures import ThreadPoolExecutor
ROOT = os.path.dirname(os.path.dirname(os.path.abspath(__file__)))
a = sys.argv[1:]
pid, name, change, maxseed, n = a[0], a[1], a[2], int(a[3]), a[4]
note, clause, env = "", None, {}
i = 5
while i < len(a):
    if a[i] == "--note": note = a[i + 1]; i += 2
    elif a[i] == "--clause": clause = a[i + 1]; i += 2
    else:
        k, v = a[i].split("=", 1); env[k] = v; i += 1
mut = "fr-" + name
subprocess.run([os.path.join(ROOT, "lib/mutbuild.sh"), mut, change], check=True)
binm = "/tmp/mut-%s.test" % mut
driver = os.path.join(ROOT, "lean/.lake/build/bin/driver")

def verdicts(binary, e, outp):
    subprocess.run([binary, "-test.run", "^TestRun$", "-test.timeout", "0"], env=dict(os.environ, VERIF_OUT=outp, **e), stdout=subprocess.DEVNULL, stderr=subprocess.DEVNULL,
                   cwd=os.path.join(ROOT, "harness"))
    if not os.path.exists(outp): return []
    p = subprocess.run([driver, os.environ.get("VERIF_DRIVER", pid)], stdin=open(outp), stdout=subprocess.PIPE, text=True)
    os.remove(outp)
    return [json.loads(l) for l in p.stdout.splitlines() if l.strip()]

def first_viol(vs):
    for v in vs:
        if v.get("v") == "viol" and (clause is None or v.get("clause") == clause): return v
    return None

def try_seed(s):
    vs = verdicts(binm, dict(env, VERIF_MODE="hist", VERIF_SEED=str(s), VERIF_N=n, VERIF_HISTS="1"), tempfile.mktemp(suffix=".jsonl"))
    return s, first_viol(vs)

found = None
with ThreadPoolExecutor(max_workers=14) as ex:
    for s, v in ex.map(try_seed, range(1, maxseed + 1)):
        if v and (found is None or s < found[0]): found = (s, v)
try:
    if not found:
        print("NOT FOUND: no seed in 1..%d shows a %s violation on the changed tree" % (maxseed, pid)); sys.exit(1)
    s, v = found
    print("seed", s, "line", v["i"], v.get("clause"), json.dumps(v.get("detail"))[:300])
    subprocess.run([os.path.join(ROOT, "lib/record_corpus.py"), pid, name, binm, str(s), n, "--upto", str(v["i"] + 2), "--note", note] + ["%s=%s" % kv for kv in env.items()], check=True)
    rel = os.path.join(ROOT, "corpus/%s-%s.rec.jsonl.gz" % (pid, name))
    subprocess.run([os.path.join(ROOT, "lib/shrink_rec.py"), pid, rel, binm] + (["--clause", v["clause"]] if v.get("clause") else []))
    e = dict(VERIF_MODE="histreplay", VERIF_SEED="0", VERIF_N="0", VERIF_REPLAY_FILE=rel)
    vm = first_viol(verdicts(binm, e, tempfile.mktemp(suffix=".jsonl")))
    subprocess.run(["sh", "-c", "cd %s/harness && go test -c -tags verif -o %s/build/harness.test ." % (ROOT, ROOT)], check=True,
                   env=dict(os.environ, GOFLAGS="-mod=mod", GOPROXY="off", GOSUMDB="off", GOTOOLCHAIN="local"))
    vr = [x for x in verdicts(os.path.join(ROOT, "build/harness.test"), e, tempfile.mktemp(suffix=".jsonl")) if x.get("v") != "ok"]
    print("replay on the changed tree:", "VIOLATION " + vm["clause"] if vm else "nothing (BAD)")
    print("replay on /repo:", "nothing (good)" if not vr else "NOT CLEAN: " + json.dumps(vr[0])[:300])
    sys.exit(0 if vm and not vr else 2)
finally:
    subprocess.run([os.path.join(ROOT, "lib/mutbuild.sh"), mut, "--rm"])
