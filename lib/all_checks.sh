#!/bin/sh
# lib/all_checks.sh [tier] [seed] — every registered check once, sequentially (they share harness/go.mod and the lake build dir),
# one summary line each; exit 1 if any check exits non-zero.
TIER=${1:-quick}; SEED=${2:-1}; RC=0; L=/tmp/all-$TIER-s$SEED
cd "$(dirname "$0")/.."
for P in C01 C02 C03 C04 C05 C06 C07 C08 C09 C10 C11 C12 C13 C14 C15 C16 C17 C18 C19 C20; do
  VERIF_SEED=$SEED ./check $P --tier $TIER > $L-$P.log 2>&1; R=$?
  [ $R -ne 0 ] && RC=1
  echo "rc=$R $(grep -E "^$P tier=" $L-$P.log | tail -1) $(grep -c '^VIOLATION' $L-$P.log) violations $(grep -c '^KNOWN-FINDING' $L-$P.log) known"
done
exit $RC
