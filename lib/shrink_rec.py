#!/usr/bin/env python3
"""lib/shrink_rec.py <Cxx> <rec.jsonl.gz> <harness-binary> [--clause C] [--budget N]

Delta debugging of a stored history (lib/record_corpus.py): txs are removed in chunks (halves, quarters, … single txs) as long
as replaying the remaining history with the given harness binary (normally one built against a changed tree by
lib/mutbuild.sh) still makes the property's driver report a violation of the same clause; blocks are kept (an emptied block
stays as an empty block, so block times and heights are unchanged), then trailing blocks after the failing one are cut.
The file is rewritten in place with the smallest history found within the budget of replays."""
import sys, os, json, gzip, subprocess, tempfile
ROOT = os.path.dirname(os.path.dirname(os.path.abspath(__file__)))
a = sys.argv[1:]
pid, rec, binary = a[0], os.path.abspath(a[1]), a[2]
clause, budget = None, 50
i = 3
while i < len(a):
    if a[i] == "--clause": clause = a[i + 1]; i += 2
    elif a[i] == "--budget": budget = int(a[i + 1]); i += 2
    else: i += 1
driver = os.path.join(ROOT, "lean/.lake/build/bin/driver")
lines = [json.loads(l) for l in gzip.open(rec, "rt")]
steps = [l for l in lines if l.get("t") == "hist.step"]
head = [l for l in lines if l.get("t") != "hist.step"]
runs = [0]

def write(path, keep):
    """keep: set of (step index, tx index) to keep"""
    with gzip.open(path, "wt") as g:
        for h in head: g.write(json.dumps(h) + "\n")
        for si, st in enumerate(steps):
            st2 = dict(st)
            idx = [k for k in range(len(st["txs"])) if (si, k) in keep]
            st2["txs"] = [st["txs"][k] for k in idx]
            st2["rec"] = dict(st["rec"], txs=[st["rec"]["txs"][k] for k in idx if k < len(st["rec"]["txs"])])
            g.write(json.dumps(st2) + "\n")

def fails(keep):
    runs[0] += 1
    tmp = tempfile.mktemp(suffix=".rec.jsonl.gz"); out = tempfile.mktemp(suffix=".jsonl")
    write(tmp, keep)
    e = dict(os.environ, VERIF_MODE="histreplay", VERIF_SEED="0", VERIF_N="0", VERIF_REPLAY_FILE=tmp, VERIF_OUT=out)
    subprocess.run([binary, "-test.run", "^TestRun$", "-test.timeout", "0"], env=e, stdout=subprocess.DEVNULL, stderr=subprocess.DEVNULL, cwd=os.path.join(ROOT, "harness"))
    ok = False
    if os.path.exists(out):
        p = subprocess.run([driver, os.environ.get("VERIF_DRIVER", pid)], stdin=open(out), stdout=subprocess.PIPE, text=True)
        for l in p.stdout.splitlines():
            try: v = json.loads(l)
            except Exception: continue
            if v.get("v") == "viol" and (clause is None or v.get("clause") == clause): ok = True; break
        os.remove(out)
    os.remove(tmp)
    return ok

allp = [(si, k) for si, st in enumerate(steps) for k in range(min(len(st["txs"]), len(st["rec"]["txs"])))]
keep = set(allp)
if not fails(keep):
    print("shrink: the stored history does not fail with this binary; left as it is"); sys.exit(1)
n = 2
cur = list(allp)
while len(cur) >= 1 and runs[0] < budget:
    chunk = max(1, len(cur) // n)
    removed = False
    for s in range(0, len(cur), chunk):
        trial = cur[:s] + cur[s + chunk:]
        if runs[0] >= budget: break
        if fails(set(trial)):
            cur = trial; n = max(n - 1, 2); removed = True; break
    if not removed:
        if chunk == 1: break
        n = min(len(cur), n * 2)
write(rec, set(cur))
print("shrink: %d of %d txs kept after %d replays" % (len(cur), len(allp), runs[0]))
