#!/bin/sh
# lib/regen.sh — every Lean file that is generated from the Go source of ${VERIF_REPO:-/repo} is deleted and rewritten (the four
# extractors / translators under harness/cmd). Called by setup.sh before the first build and by lib/teeth.sh after a run against a changed
# worktree; each ./check runs the generators of its own property again as pre-commands. harness/go.mod must point at the same tree.
set -e
cd "$(dirname "$0")/../harness"
export GOFLAGS=-mod=mod GOPROXY=off GOSUMDB=off GOTOOLCHAIN=local
go run ./cmd/extract -out ../lean/ElysModel/Gen/Handlers.lean
go run ./cmd/mintburn -out ../lean/ElysModel/Gen/MintBurn.lean
go run ./cmd/mapranges -out ../lean/ElysModel/Gen/MapRanges.lean
go run ./cmd/go2lean -out ../lean/ElysModel/Gen/Arith
