#!/usr/bin/env python3
"""Regenerates the catch matrix in DESIGN.md (between the CATCH-MATRIX markers) from seeded/TEETH.txt (written by
lib/teeth_all.sh) and seeded/<id>/meta.json."""
import os, json, re, subprocess
ROOT = os.path.dirname(os.path.dirname(os.path.abspath(__file__)))
rows = {}
for l in open(os.path.join(ROOT, "seeded/TEETH.txt")):
    m = re.match(r"(sd|rv)\S*?-(C\d\d-\d+|[0-9a-f]{7}) (C\d\d) exit=(\d+) violations=(\d+) nofailinginput=(\d+) clauses=(\S*)", l)
    if not m: continue
    kind, ident, prop, rc, nv, nf, cl = m.groups()
    rows.setdefault((kind, ident), []).append((prop, int(rc), cl))
out = ["| change | what it is | needs | check → result |", "|---|---|---|---|"]
for (kind, ident), rs in sorted(rows.items(), key=lambda x: (x[0][0] != "sd", x[0][1])):
    if kind != "sd": continue
    meta = json.load(open(os.path.join(ROOT, "seeded", ident, "meta.json")))
    res = "; ".join("%s → %s" % (p, ("**caught** (" + cl.replace(",", ", ") + ")") if rc == 1 and cl and cl != "no-failing-input-found" else
                     ("caught, no failing input" if rc == 1 else "not reported")) for p, rc, cl in rs)
    note = ""
    if "MISSED" in meta.get("history", ""): note = " — first missed, see meta.json"
    if ident == "C01-1": note = " — no longer a violation since 78eb247 (see meta.json); caught before that fix"
    if ident == "C18-1": note = " — no longer a violation since 7acf6c7 (see meta.json); caught before that fix"
    out.append("| seeded %s | %s | %s | %s%s |" % (ident, meta["change"], meta["needs_to_manifest"], res, note))
out += ["", "| reverted fix | property | check → result |", "|---|---|---|"]
subj = {}
for l in subprocess.check_output(["git", "-C", "/repo", "log", "--format=%h %s"]).decode().splitlines():
    h, s = l.split(" ", 1); subj[h] = s
order = [l.split()[0] for l in subprocess.check_output(["git", "-C", "/repo", "log", "--reverse", "--format=%h %s"]).decode().splitlines() if " fix:" in l]
for h in order:
    rs = rows.get(("rv", h))
    if not rs: continue
    res = "; ".join("%s → %s" % (p, ("**caught** (" + cl.replace(",", ", ") + ")") if rc == 1 and cl else ("caught, no failing input" if rc == 1 else "not reported")) for p, rc, cl in rs)
    note = " — alone no longer a violation since 7acf6c7 (the hook logs the error instead of halting)" if h == "e07ea76" else ""
    out.append("| %s | %s | %s%s |" % (h, subj.get(h, "")[5:90], res, note))
p = os.path.join(ROOT, "DESIGN.md")
s = open(p).read()
a = s.index("<!-- CATCH-MATRIX-BEGIN -->") + len("<!-- CATCH-MATRIX-BEGIN -->")
b = s.index("<!-- CATCH-MATRIX-END -->")
open(p, "w").write(s[:a] + "\n" + "\n".join(out) + "\n" + s[b:])
print(len(out), "lines")
