#!/usr/bin/env python3
"""lib/merge_teeth.py <file>... — merges catch-matrix lines into seeded/TEETH.txt: for each (change, check) the line of the LAST file
given wins; the existing seeded/TEETH.txt is the base. Used when the matrix is run in parts (lib/teeth.sh prints one line per pair)."""
import re, sys, os
ROOT = os.path.dirname(os.path.dirname(os.path.abspath(__file__)))
rows, order = {}, []
def take(path):
    for l in open(path):
        m = re.match(r"(sd|rv)\S*?-(C\d\d-\d+|[0-9a-f]{7})\w* (C\d\d) (exit=.*)", l.strip())
        if not m:
            continue
        kind, ident, prop, rest = m.groups()
        key = (kind, ident, prop)
        if key not in rows:
            order.append(key)
        rows[key] = "%s-%s %s %s" % (kind, ident, prop, rest)
take(os.path.join(ROOT, "seeded", "TEETH.txt"))
for p in sys.argv[1:]:
    take(p)
order.sort(key=lambda k: (k[0] != "sd", k[1] if k[0] == "sd" else "", ))
with open(os.path.join(ROOT, "seeded", "TEETH.txt"), "w") as f:
    for k in order:
        f.write(rows[k] + "\n")
print(len(order), "lines")
