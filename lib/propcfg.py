# per-property configuration of ./check (what to build, what to run, what the evidence says)
COMMON_TB = [
    "hand-written Lean model tied to /repo only by the executed correspondence (sampled, seeded)",
    "Go harness (/verif/harness): op generators, observation of real state, JSONL protocol; Lean driver parser",
    "cosmos-sdk baseapp/bank/auth, cosmossdk.io/math big integers, IAVL: modelled, not verified",
]

HIST_RULE = ("histories of signed transactions through FinalizeBlock+Commit on the real app (standard world: 4 amm pools, 2 of them oracle pools "
             "with leveragelp+perpetual+accounted pool, stablestake, masterchef, tradeshield; weighted op grammar over ~30 message kinds plus oracle price "
             "moves and third-party sends); an evaluation is one block; non-trivial/distinct = distinct block lines (txs, results and observed state)")


def hist_run(nq=150, nt=400, sq=8, st=14, focus=None, hq=1, ht=3):
    r = dict(mode="hist", n_quick=nq, n_thorough=nt, shards_quick=sq, shards_thorough=st, env_quick={"VERIF_HISTS": str(hq)}, env_thorough={"VERIF_HISTS": str(ht)})
    if focus:
        r["env_quick"]["VERIF_FOCUS"] = focus
        r["env_thorough"]["VERIF_FOCUS"] = focus
    return r


PROPS = {
    "C14": dict(
        level="proof",
        lean_modules=["ElysModel.Props.C14"],
        props_files=["ElysModel/Props/C14.lean"],
        runs=[dict(mode="c14", n_quick=600, n_thorough=20000, shards_quick=8, shards_thorough=14)],
        rule="op sequences (vest/claim/cancel/vest-now/gov schedule change at generated heights) on the real commitment "
             "msg server, one fresh account per sequence; an evaluation is one op; non-trivial = the op succeeded; "
             "distinct = distinct (op, arguments, result, observed entries) tuples",
        trusted_base=COMMON_TB + ["msg server driven directly with ctx.WithBlockHeight and CacheContext per op (not through FinalizeBlock)"],
        assumptions=["one vesting denom (ELYS) per account; amounts positive (ValidateBasic); NumBlocks > 0 except in the witness"],
        explanation="Theorems C14.* over all op sequences of the vesting model; model = code checked by differential op sequences; "
                    "property predicates (claim succeeds, monotone, bounds, conservation, completion, vest-now) evaluated on every real observation.",
    ),
    "C12": dict(
        level="proof",
        lean_modules=["ElysModel.Props.C12"],
        props_files=["ElysModel/Props/C12.lean"],
        runs=[hist_run()],
        rule=HIST_RULE,
        trusted_base=COMMON_TB + ["macro-ops of each block are recognised from x/bank's own transfer/coinbase/burn events and the submitted messages; "
                                  "claimed-bucket bookkeeping of Eden/EdenB and EdenB burns are witnessed (W) from the observation"],
        assumptions=["lock-up arithmetic (DeductFromCommitted) is not in the ledger model; VestLiquid is not exercised"],
        explanation="Theorems: the relation the code maintains (total = sum + 2*uncommitted + burnt) by induction over all macro-op histories, total >= sum, "
                    "custody, no-overdraw, the property's first clause over histories without uncommit (partial) and the witness of the defect. "
                    "Known finding C12-uncommit-adds: reported only while the real total equals the as-coded relation exactly.",
    ),
    "C02": dict(
        level="proof",
        lean_modules=["ElysModel.Props.C02"],
        props_files=["ElysModel/Props/C02.lean"],
        runs=[hist_run(focus="amm.")],
        rule=HIST_RULE,
        trusted_base=COMMON_TB + ["share mint/burn macro-ops recognised from x/bank events (coinbase -> send -> commit; uncommit -> send -> burn)"],
        assumptions=["call-site fact used by the theorem: shares are committed only by MintPoolShareToAccount and uncommitted only by exit/unbond paths"],
        explanation="Theorems: pool TotalShares = supply = sum of committed = custody balance is preserved by every macro-op (induction over histories); "
                    "supply changes only in the paired mint/burn macro-ops. Same predicate evaluated on every observed block.",
    ),
}
