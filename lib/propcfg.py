# loads lib/props/Cxx.py (one file per property: CFG = dict(...))
import os, glob, importlib.util
HERE = os.path.dirname(os.path.abspath(__file__))
PROPS = {}
for _p in sorted(glob.glob(os.path.join(HERE, "props", "C*.py"))):
    _pid = os.path.basename(_p)[:-3]
    _spec = importlib.util.spec_from_file_location("prop_" + _pid, _p)
    _m = importlib.util.module_from_spec(_spec)
    _spec.loader.exec_module(_m)
    PROPS[_pid] = _m.CFG
