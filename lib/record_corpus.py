#!/usr/bin/env python3
"""lib/record_corpus.py <Cxx> <name> <harness-binary> <seed> <n> [--upto K] [--note TEXT] [KEY=VALUE ...]

Runs history mode once with VERIF_RECORD=1 (plus the given environment, e.g. VERIF_FAULTS=1) using the given harness binary
(build/harness.test for /repo, or /tmp/mut-<x>.test built by lib/mutbuild.sh against a changed tree), keeps from the output
only what a replay needs (world variant, state edits between blocks, block times, messages with signers and fees, the kind
and fields of every tx; no observations), truncated after step K, and stores it as corpus/<Cxx>-<name>.rec.jsonl.gz together
with the corpus entry corpus/<Cxx>-<name>.json that makes ./check re-execute it first (mode histreplay)."""
import sys, os, json, gzip, subprocess, tempfile
ROOT = os.path.dirname(os.path.dirname(os.path.abspath(__file__)))
a = sys.argv[1:]
pid, name, binary, seed, n = a[0], a[1], a[2], a[3], a[4]
upto, note, env = None, "", {}
i = 5
while i < len(a):
    if a[i] == "--upto": upto = int(a[i + 1]); i += 2
    elif a[i] == "--note": note = a[i + 1]; i += 2
    else:
        k, v = a[i].split("=", 1); env[k] = v; i += 1
tmp = tempfile.mktemp(suffix=".jsonl")
e = dict(os.environ, VERIF_MODE="hist", VERIF_SEED=seed, VERIF_N=n, VERIF_OUT=tmp, VERIF_RECORD="1", VERIF_HISTS="1", **env)
subprocess.run([binary, "-test.run", "^TestRun$", "-test.timeout", "0"], env=e, check=True, stdout=subprocess.DEVNULL, cwd=os.path.join(ROOT, "harness"))
rel = "corpus/%s-%s.rec.jsonl.gz" % (pid, name)
steps = 0
with gzip.open(os.path.join(ROOT, rel), "wt") as g:
    for line in open(tmp):
        j = json.loads(line)
        if j.get("t") == "hist.begin":
            g.write(json.dumps({k: j[k] for k in ("t", "id", "seed", "world")}) + "\n")
        elif j.get("t") == "hist.step":
            steps += 1
            if upto is not None and steps > upto: break
            g.write(json.dumps({"t": "hist.step", "id": j["id"], "shocks": j.get("shocks"), "rec": j["rec"],
                                "txs": [{"kind": t["kind"], "f": t["f"]} for t in j["txs"]]}) + "\n")
os.remove(tmp)
json.dump({"property": pid, "note": note, "recorded_from": {"mode": "hist", "seed": int(seed), "n": int(n), "env": env, "steps_kept": steps if upto is None else min(steps, upto)},
           "runs": [dict({"mode": "histreplay", "seed": 0, "n": 0, "env": {"VERIF_REPLAY_FILE": rel}}, **({"driver": os.environ["VERIF_DRIVER"]} if os.environ.get("VERIF_DRIVER") else {}))]},
          open(os.path.join(ROOT, "corpus/%s-%s.json" % (pid, name)), "w"), indent=1)
print("stored", rel, os.path.getsize(os.path.join(ROOT, rel)), "bytes")
