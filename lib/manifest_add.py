#!/usr/bin/env python3
"""lib/manifest_add.py <Cxx> <level> <technique> <design_ref> <text> <note>  — add/replace one check in MANIFEST.json"""
import json, sys
pid, level, tech, ref, text, note = sys.argv[1:7]
m = json.load(open('/verif/MANIFEST.json'))
m['checks'] = [c for c in m['checks'] if c['property_id'] != pid]
m['checks'].append({"property_id": pid, "quick_cmd": "./check %s --tier quick" % pid, "thorough_cmd": "./check %s --tier thorough" % pid,
                    "evidence_file": "evidence/%s.json" % pid, "replay_cmd_template": "./check %s --replay {path}" % pid,
                    "engine": "lean-model+harness+driver",
                    "level_claimed": {"category": level, "text": text, "design_ref": ref}, "level_note": note, "technique": tech})
m['checks'].sort(key=lambda c: c['property_id'])
m['not_applicable'] = [n for n in m.get('not_applicable', []) if n['property_id'] != pid]
for e in m['engines']:
    if pid not in e['serves_properties']:
        e['serves_properties'].append(pid)
        e['serves_properties'].sort()
json.dump(m, open('/verif/MANIFEST.json', 'w'), indent=1)
