#!/bin/sh
# lib/sweep_seeds.sh <tier> <seed>... — every registered check on the unchanged tree for each seed; alarms (anything but rc=0) are
# printed and their logs kept as alarm-<Cxx>-s<seed>.log in the checkout.
cd "$(dirname "$0")/.."
TIER=$1; shift
for s in "$@"; do
  lib/all_checks.sh $TIER $s > sweep-$TIER-s$s.out 2>&1
  grep -v "rc=0" sweep-$TIER-s$s.out
  for P in $(grep -v "rc=0" sweep-$TIER-s$s.out | grep -o "C[0-9][0-9]" | sort -u); do cp /tmp/all-$TIER-s$s-$P.log alarm-$P-s$s.log; done
done
echo sweep-done
