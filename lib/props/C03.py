from propcommon import *  # noqa

CFG = dict(
        level="proof",
        lean_modules=["ElysModel.Props.C03", "ElysModel.Props.C03Src"],
        pre_cmds=[GO2LEAN],
        props_files=["ElysModel/Props/C03.lean", "ElysModel/Props/C03Src.lean"],
        runs=[dict(mode="c03", n_quick=2500, n_thorough=72000, shards_quick=8, shards_thorough=14),
              dict(hist_run(nq=150, nt=400, sq=6, st=10, focus="amm."), driver="C03H"),
              dict(scn_run("c03"), driver="C03H")],
        rule="differential cases on the real x/amm/types functions (CalcOutAmtGivenIn / SwapOutAmtGivenIn, CalcInAmtGivenOut / "
             "SwapInAmtGivenOut on generated non-oracle two-asset pools; the same two Swap functions on generated ORACLE pools with stub price / accounted-pool "
             "keepers, external-liquidity ratios, snapshots and weight-breaking-fee parameters; types.Pow): reserves log-uniform 10^0..10^30, weights "
             "{1:1,1:2,1:4,20:80,random}, fees {0,1bp..2%,tier-discounted}, trade sizes 1..reserve-1, accounted balances, plus a "
             "boundary lattice (dust, amount = reserve, reserve+-1, Quo ties, reserves around 10^18, zero/huge values); an evaluation "
             "is one call; non-trivial = the call succeeded; distinct = distinct (function, arguments, result) tuples; plus history mode on the real app (driver C03H: amm-focused "
             "histories and the scenario c03-bonus-from-treasury; an evaluation is one block)",
        trusted_base=COMMON_TB + [SRC_TB, "oracle / accounted-pool keepers replaced by table-driven stubs (not consulted for prices by non-oracle pools)",
                                  "reference value of the weighted-product formula for unequal weights: math/big.Float at 420 bits in the harness"],
        assumptions=[SRC_ASSUME, "the oracle branches of SwapOutAmtGivenIn/SwapInAmtGivenOut are ported, checked differentially, and PROVED to pay out no more value than is paid in at the oracle prices "
                     "(theorems oracle_value / oracle_in_value, for every weight-breaking fee in [0,1] the port applied - a ghost output compared with the implementation's); the bonus is judged on real blocks (driver C03H): over a block's end-block transfers an oracle pool's own account never pays out more value than it takes in at the prices in force, so any bonus comes from the rebalance treasury",
                     "equal-weight statements are proved about the Lean port; unequal-weight statements are conditional on PowSpec (|Pow(y,w) - y^w| <= 1e-8 on 0<y<=1), which is TESTED against the 420-bit reference (clause C03.pow_spec), not proved",
                     "weighted allowance is 1e-8 of the RESERVE (what PowSpec yields), fees in [0,2%], exact-in trades up to 1000 x the in-reserve"],
        explanation="Theorems C03.* about the Lean port of solveConstantFunctionInvariant/Pow/CalcOutAmtGivenIn/CalcInAmtGivenOut (equal weights: "
                    "exponent-1 path, exact rounding bounds); port = code checked by exact equality of (result kind, amount, slippage) on every case; "
                    "property predicates (one-unit allowance, the Quo-rounding bound, weighted 1e-8, PowSpec) evaluated on every real output.",
    )
