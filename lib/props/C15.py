from propcommon import *  # noqa

CFG = dict(
    level="proof",
    lean_modules=["ElysModel.Props.C15"],
    props_files=["ElysModel/Props/C15.lean"],
    pre_cmds=["cd harness && go run ./cmd/mintburn -out ../lean/ElysModel/Gen/MintBurn.lean"],
    runs=[scn_run("c15"), hist_run(), hist_run(nq=200, sq=6, st=10, focus="cm."), gentrip_run(focus="cm."),
          # governance enables vest-now and re-points what Eden vests into (uelys / uatom / USDC); users vest-now their claimed Eden
          dict(hist_run(nq=150, nt=300, sq=4, st=8, focus="cm."), env_quick={"VERIF_HISTS": "1", "VERIF_FOCUS": "cm.", "VERIF_GOVVEST": "1"}, env_thorough={"VERIF_HISTS": "3", "VERIF_FOCUS": "cm.", "VERIF_GOVVEST": "1"})],
    rule=HIST_RULE + "; plus the directed burner scenario (mode scn, prefix c15)",
    trusted_base=COMMON_TB + ["mint/burn sites are the x/bank coinbase/burn events of real blocks, classified by (module account, denom, enclosing message kind)"],
    assumptions=["IBC vouchers, x/mint inflation, slashing and governance burns do not occur in the generated worlds",
                 "the static inventory of MintCoins/BurnCoins call sites (Gen/MintBurn, regenerated on every run by harness/cmd/mintburn: typed AST, every call of a method named "
                 "MintCoins or BurnCoins outside tests with package, function, receiver type and argument text) is compared with a hand-read expectation; the classification of each "
                 "site is a human reading, tied to behaviour only by the events that actually occur in real blocks; MatchAmmBalances (mints/burns pool assets) is reachable only from "
                 "the v9 upgrade migration and is outside block processing"],
    explanation="Theorems: external supply is unchanged by every allowed op and every history; the native token goes up only by vesting release and down only by the burner; "
                "share supply changes only in the paired share ops; witness that the burner as coded burns an external denom (known finding). Every coinbase/burn event "
                "of every real block is classified; the model's supply is compared with the bank's. Structural: the regenerated table of the 15 mint/burn call sites equals the "
                "expectation (sites_as_expected, by decide), no block-processing site mints an external or virtual denom through x/bank, only the burner can burn an external one.",
)
