from propcommon import *  # noqa

CFG = dict(
    level="proof",
    lean_modules=["ElysModel.Props.C15"],
    props_files=["ElysModel/Props/C15.lean"],
    runs=[scn_run("c15"), hist_run(), hist_run(nq=200, sq=6, st=10, focus="cm.")],
    rule=HIST_RULE + "; plus the directed burner scenario (mode scn, prefix c15)",
    trusted_base=COMMON_TB + ["mint/burn sites are the x/bank coinbase/burn events of real blocks, classified by (module account, denom, enclosing message kind)"],
    assumptions=["IBC vouchers, x/mint inflation, slashing and governance burns do not occur in the generated worlds",
                 "the static inventory of MintCoins/BurnCoins call sites (DESIGN 3.2 Gen/MintBurn) is not built; classification is of the events that actually occur"],
    explanation="Theorems: external supply is unchanged by every allowed op and every history; the native token goes up only by vesting release and down only by the burner; "
                "share supply changes only in the paired share ops; witness that the burner as coded burns an external denom (known finding). Every coinbase/burn event "
                "of every real block is classified; the model's supply is compared with the bank's.",
)
