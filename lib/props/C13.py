from propcommon import *  # noqa

CFG = dict(
    level="proof",
    lean_modules=["ElysModel.Props.C13", "ElysModel.Props.C13Src"],
    pre_cmds=[GO2LEAN],
    props_files=["ElysModel/Props/C13.lean", "ElysModel/Props/C13Src.lean"],
    runs=[hist_run(), hist_run(focus="perp.", sq=4, st=6), gentrip_run()],
    rule=HIST_RULE,
    trusted_base=COMMON_TB + [SRC_TB, "per reward denom the block's flows (revenue in, stakers/protocol/provider out, claims paid, incentive funding) are x/bank transfers to/from the "
                              "masterchef module account, classified by recipient; the amount credited is the observed change of the sum of claimable amounts (W)"],
    assumptions=[SRC_ASSUME, "credit_le_amount relies on the chain-wide committed total being >= the sum of the accounts' balances (C12.total_ge_sum)",
                 "Eden/EdenB rewards are virtual (no bank backing) and are outside the solvency clause"],
    explanation="Theorems: one UpdateAccPerShare(amount) credits at most amount in total (given total committed >= sum of balances); a deposit earns nothing retroactively; "
                "claims truncate; the solvency ledger (collect / incentive funding and crediting / claim) keeps balance >= credited-unclaimed over all histories; witnesses of the "
                "two repaired defects. Each real block's flows must be an accepted step of that ledger; solvency is evaluated on every observed block with the claimable amount "
                "of every holder recomputed from accumulators, balances and debts."
                " Reward denom list: the model of GetRewardDenoms lists every denom once (rewardDenoms_nodup), so the deposit/withdraw hooks change nothing claimable (hookOver_claimable), while a second pass over-credits by acc*x (hookPass_twice); the keeper's list is compared with the model's on every block; one history in four has USDC as an ibc/ voucher.",
)
