from propcommon import *  # noqa

CFG = dict(
    level="proof",
    lean_modules=["ElysModel.Props.C11", "ElysModel.Props.C11Src"],
    pre_cmds=[GO2LEAN],
    props_files=["ElysModel/Props/C11.lean", "ElysModel/Props/C11Src.lean"],
    runs=[scn_run("c11"), hist_run(focus="perp."), fault_run(focus="perp.", whale=True), govpool_run(focus="amm.")],
    rule=HIST_RULE + "; plus directed scenarios (mode scn, prefix c11)",
    trusted_base=COMMON_TB + [SRC_TB, "per (pool, asset) the block's deltas of amm book, liabilities and custody are witnessed (W); TotalTokens and NonAmmPoolTokens are predicted"],
    assumptions=[SRC_ASSUME, "EnableTakeProfitCustodyLiabilities stays at its default false"],
    explanation="Theorems: each refresh function is correct when given the current amm balance; every interleaving of amm-side and perpetual-side operations "
                "(as repaired) preserves total = book + L - C and nonAmm = L - C for all amounts; witnesses of the two pre-repair defects (stale snapshot in Open, "
                "no hook after settlement). Predicates evaluated on every observed block.",
)
