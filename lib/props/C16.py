from propcommon import *  # noqa

CFG = dict(
        level="proof",
        lean_modules=["ElysModel.Props.C16", "ElysModel.Props.C16Src"],
        pre_cmds=[GO2LEAN],
        props_files=["ElysModel/Props/C16.lean", "ElysModel/Props/C16Src.lean"],
        runs=[dict(mode="c16", n_quick=150, n_thorough=1500, shards_quick=8, shards_thorough=14)],
        rule="scripts of oracle operations on the real keeper and message server (set asset info; add/remove/activate/deactivate "
             "feeders; FeedPrice / FeedMultiplePrices from feeders and non-feeders; direct SetPrice at chosen timestamps; EndBlock at "
             "chosen (time, height), often exactly on an expiry boundary; GetAssetPrice / GetAssetPriceFromDenom sweeps over the name "
             "alphabet) with asset and source names drawn from a small alphabet whose prefixes and concatenations collide; an "
             "evaluation is one op or one lookup; non-trivial = the op did not fail; distinct = distinct (op, arguments, result, "
             "observed store / answer) tuples",
        trusted_base=COMMON_TB + [SRC_TB, "keeper and msg server driven directly on a CacheContext branch of the genesis state with "
                                  "ctx.WithBlockTime/WithBlockHeight and per-message CacheContext (not through FinalizeBlock); "
                                  "ValidateBasic is called by the harness and a rejected message is replayed as a failed no-op"],
        assumptions=[SRC_ASSUME, "price store written only through SetPrice (keys derived from values); timestamps/heights far from uint64 overflow "
                     "in the generated scripts (the model itself uses the code's wrapping uint64 sums)",
                     "lookup exactness is proved under the decidable no-collision hypothesis on stored keys; without it the code "
                     "returns foreign prices (known finding C16-key-prefix-collision, witness theorems)"],
        explanation="Theorems C16.* over the ordered byte-string KV model of the price store (exact key layout, reverse prefix scan, "
                    "EndBlock, feeder gate); model = code checked by differential scripts (whole store, every lookup, feeder records); "
                    "the property predicate (asked asset, newest live price of the preferred source, not expired, zero without "
                    "info/price, feeds only from registered active feeders) is evaluated on every real answer against a reference "
                    "built from the script's successful writes.",
    )
