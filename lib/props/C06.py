from propcommon import *  # noqa

CFG = dict(
    level="proof",
    lean_modules=["ElysModel.Props.C06", "ElysModel.Props.C06Src"],
    pre_cmds=[GO2LEAN],
    props_files=["ElysModel/Props/C06.lean", "ElysModel/Props/C06Src.lean"],
    runs=[hist_run(focus="lp."), hist_run(focus="ss.", sq=4, st=6), fault_run(nq=200, sq=4, st=8, focus="ss."),
          # governance re-sends the vault's parameters from a stale draft now and then (harness/govshock.go govVaultShock)
          dict(hist_run(nq=150, nt=400, sq=4, st=8, focus="ss."), env_quick={"VERIF_HISTS": "1", "VERIF_FOCUS": "ss.", "VERIF_GOVSS": "1"}, env_thorough={"VERIF_HISTS": "3", "VERIF_FOCUS": "ss.", "VERIF_GOVSS": "1"})],
    rule=HIST_RULE,
    trusted_base=COMMON_TB + [SRC_TB, "vault ops are recognised from x/bank transfers to/from the stablestake module account; the interest accrued per borrower per block is a "
                              "witnessed (W) parameter taken from the observed debt record (for a debt deleted in the block: derived from the repay amount)"],
    assumptions=[SRC_ASSUME, "interest arithmetic (GetInterest) is not modelled (W); the theorem holds for every interest amount",
                 "bond/unbond read Params first and write it last: no accrual happens in between (call-graph fact, observed by the correspondence)"],
    explanation="Theorems: TotalValue = cash + sum(principal + stacked - paid) preserved by bond/unbond/borrow/repay/accrue for all amounts and all interest "
                "values, by induction over histories; deleting a debt is safe (all owed interest was paid). Model tied to the code block by block; "
                "the equation is evaluated on every observed block.",
)
