from propcommon import *  # noqa

CFG = dict(
    level="proof",
    lean_modules=["ElysModel.Props.C20", "ElysModel.Props.C20Src"],
    pre_cmds=[GO2LEAN],
    props_files=["ElysModel/Props/C20.lean", "ElysModel/Props/C20Src.lean"],
    runs=[scn_run("c20"), hist_run(focus="ts."), dict(hist_run(nq=200, sq=4, st=8, focus="ts."), env_quick={"VERIF_HISTS": "1", "VERIF_FOCUS": "ts.", "VERIF_GENTRIP": "1"}, env_thorough={"VERIF_HISTS": "3", "VERIF_FOCUS": "ts.", "VERIF_GENTRIP": "1"})],
    rule=HIST_RULE + "; plus directed scenarios (mode scn, prefix c20)",
    trusted_base=COMMON_TB + [SRC_TB, "what happened to each pending order in a block (cancelled / executed / untouched) is inferred from the order sets before and after and the "
                              "block's successful cancel/update messages; the market price is the post-block oracle price (price feeds are first in a block)"],
    assumptions=[SRC_ASSUME, "limit-close perpetual orders are disabled in the code (v1) and not generated"],
    explanation="Theorems: while an order is pending its escrow holds at least its amount (all histories, repaired handler); wallet + escrow conservation through create/update/"
                "cancel and skipped/failed executions; owner-only update/cancel; an execution changes nothing unless the trigger holds; cancel returns the whole escrow; witness "
                "of the pre-repair partial-effect defect. Predicates (escrow holds, owner only, trigger, cancel returns all) evaluated on every observed block."
                " Order ids: every pending order's id is below the counter and no id is pending twice over all histories including export/import restarts (order_ids_never_reused); evaluated on every observed block.",
)
