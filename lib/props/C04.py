from propcommon import *  # noqa

CFG = dict(
    level="proof",
    lean_modules=["ElysModel.Props.C04", "ElysModel.Props.C04Src"],
    pre_cmds=[GO2LEAN],
    props_files=["ElysModel/Props/C04.lean", "ElysModel/Props/C04Src.lean"],
    runs=[dict(mode="c04", n_quick=100, n_thorough=600, shards_quick=12, shards_thorough=14)],
    rule="blocks of 1-8 swap requests on the real app through FinalizeBlock+Commit: exact-in and exact-out, 1 and 2 hops, both directions on three uatom/uusdc pools (one balancer, two "
         "oracle) and the uelys/uusdc pool, limits set at / 0.1% off / one unit beyond a dry-run quote, each request with its own fresh sender and (half of the time) a distinct fresh "
         "recipient, price-moving swaps by other users interleaved in the same block; an evaluation is one request or one block; non-trivial = distinct request lines",
    trusted_base=COMMON_TB + [SRC_TB, "a request's effect is the whole-bank balance delta of its dedicated sender and recipient accounts"],
    assumptions=[SRC_ASSUME, "what one applied request does to balances (RouteExactAmountIn/Out) is checked on the real code, not modelled; selection order and stacked-slippage comparison are abstract in the model"],
    explanation="Theorems about the batch loop for every apply function and every slippage measure: it always ends with an empty queue, a written request leaves the queue in the same "
                "iteration (at most once), and an iteration moves the state by at most one successful apply (failed attempts leave nothing). Every real request is judged: refused => no "
                "change; executed exact-in => sender debited exactly the input, recipient credited >= min; executed exact-out => sender debited <= max, recipient credited >= out; nobody "
                "debited or credited in other denoms; the queue is empty after every block; the loop model replayed with the observed success flags writes exactly the executed requests.",
)
