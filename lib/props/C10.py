from propcommon import *  # noqa

CFG = dict(
    level="proof",
    lean_modules=["ElysModel.Props.C10", "ElysModel.Props.C10Src"],
    pre_cmds=[GO2LEAN],
    props_files=["ElysModel/Props/C10.lean", "ElysModel/Props/C10Src.lean"],
    runs=[dict(mode="c10", n_quick=120, n_thorough=600, shards_quick=14, shards_thorough=14, env_quick={"VERIF_HISTS": "1"}, env_thorough={"VERIF_HISTS": "3"})],
    rule="probe rounds on the real app through real blocks: 16 leveraged-LP and perpetual positions per world (both sides, leverage 1.5-10, owners' stop losses incl. 0), a price move, "
         "governance forcing a safety factor to within 1e-6 of some position's predicted health, then a third party's MsgClosePositions naming random positions in random lists; "
         "an evaluation is one (position, block) case or one open / non-owner close; non-trivial = distinct case lines",
    trusted_base=COMMON_TB + [SRC_TB, "health and prices each handler will see are predicted on a discarded cache context advanced to the probe block's time through the keepers' own exported "
                              "functions (the property is about the decision, not the health formula)"],
    assumptions=[SRC_ASSUME, "source tie of the forced-close guards: a LegacyDec read from a stored position is never nil (IsNil() is read as false); the deferred recover() of the handlers is not modelled", "interest/funding settlement may change a perpetual position's custody without closing it; 'altered' means removed, or collateral / principal changed (and size for leveragelp)"],
    explanation="Theorems: a position is changed by third-party attempts only if the guard of an attempted path held; otherwise it is untouched; the as-coded guards imply the property's "
                "conditions at every positive price; opens are accepted only with health above the safety factor; non-owner close fails; witness of the repaired short/zero-stop-loss defect. "
                "Every (position, block) case is judged against the decision model and the property's own condition."
                " Re-opens are also judged on the health computed as the force-close path computes it (interest and funding settled first), with an allowance of 1e-4 of the safety factor for the different rounding of the two computations.",
)
