from propcommon import *  # noqa

CFG = dict(
        level="proof",
        lean_modules=["ElysModel.Props.C05", "ElysModel.Props.C05Src"],
        pre_cmds=[GO2LEAN],
        props_files=["ElysModel/Props/C05.lean", "ElysModel/Props/C05Src.lean"],
        runs=[dict(mode="c05", n_quick=2500, n_thorough=72000, shards_quick=8, shards_thorough=14),
              dict(hist_run(nq=200, nt=400, sq=4, st=8, focus="lp."), driver="C05H"),
              dict(hist_run(nq=200, nt=400, sq=4, st=8, focus="amm."), driver="C05H"),
              dict(scn_run("c05"), driver="C05H")],
        rule="differential cases on the real x/amm/types functions (Pool.ExitPool, CalcExitPool, Pool.JoinPool with all assets, "
             "CalcJoinPoolNoSwapShares, GetMaximalNoSwapLPAmount, GetMaximalNoSwapLPAmount->JoinPool, JoinPool->ExitPool round trips) on generated "
             "non-oracle pools of 2-4 assets: balances and share supplies log-uniform 10^0..10^30, lopsided pools, deposits from 1 unit to 10 x the pool, "
             "share requests 1..S-1 (and S, S+1), plus a boundary lattice (dust, S-1, thirds, zero balances, huge values); also single-asset joins of weighted "
             "non-oracle pools (Pow based, with a 420-bit reference) and single-sided joins / exits of ORACLE pools (stub price / accounted keepers, payout equal to "
             "the book balance); an evaluation is one case; "
             "non-trivial = the call succeeded; distinct = distinct (function, arguments, result) tuples. Plus history mode on the real app (driver C05H): every successful "
             "single-asset exit from an oracle pool that is the only thing touching its pool in the block is judged against the pool's state one block earlier (payout value <= "
             "pro-rata share of the pool's value at the oracle prices, value computed from the TRUE accounted balance book + liabilities - custody), and at the end of every "
             "block the balance stored by the accounted-pool keeper - the base of all single-sided pricing - must equal that true balance",
        trusted_base=COMMON_TB + [SRC_TB, "pool functions called directly on types.Pool values (keeper guards of ExitPool are modelled and proved about, not driven)"],
        assumptions=[SRC_ASSUME, "theorems are about the all-asset join and the pro-rata exit of non-oracle pools; the single-asset weighted join and the oracle single-sided join/exit are ported, "
                     "checked differentially and their value predicates (C05.single_join_within_1e8, C05.oracle_join_value, C05.oracle_exit_value, C05.oracle_exit_never_empty) are "
                     "evaluated on every real output, but not proved",
                     "prices unchanged between join and exit (round trip is join immediately followed by exit)"],
        explanation="Theorems C05.* about the Lean port of MaximalExactRatioJoin/CalcJoinPoolNoSwapShares/JoinPool/CalcExitPool/ExitPool; port = code checked by exact "
                    "equality of every output (shares, coins joined, payouts, new balances, new total shares, result kind); predicates join_fair, exit_fair, "
                    "never_empty, round_trip evaluated on every real output.",
    )
