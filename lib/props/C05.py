from propcommon import *  # noqa

CFG = dict(
        level="proof",
        lean_modules=["ElysModel.Props.C05"],
        props_files=["ElysModel/Props/C05.lean"],
        runs=[dict(mode="c05", n_quick=2500, n_thorough=72000, shards_quick=8, shards_thorough=14)],
        rule="differential cases on the real x/amm/types functions (Pool.ExitPool, CalcExitPool, Pool.JoinPool with all assets, "
             "CalcJoinPoolNoSwapShares, GetMaximalNoSwapLPAmount, GetMaximalNoSwapLPAmount->JoinPool, JoinPool->ExitPool round trips) on generated "
             "non-oracle pools of 2-4 assets: balances and share supplies log-uniform 10^0..10^30, lopsided pools, deposits from 1 unit to 10 x the pool, "
             "share requests 1..S-1 (and S, S+1), plus a boundary lattice (dust, S-1, thirds, zero balances, huge values); also single-asset joins of weighted "
             "non-oracle pools (Pow based, with a 420-bit reference) and single-sided joins / exits of ORACLE pools (stub price / accounted keepers, payout equal to "
             "the book balance); an evaluation is one case; "
             "non-trivial = the call succeeded; distinct = distinct (function, arguments, result) tuples",
        trusted_base=COMMON_TB + ["pool functions called directly on types.Pool values (keeper guards of ExitPool are modelled and proved about, not driven)"],
        assumptions=["theorems are about the all-asset join and the pro-rata exit of non-oracle pools; the single-asset weighted join and the oracle single-sided join/exit are ported, "
                     "checked differentially and their value predicates (C05.single_join_within_1e8, C05.oracle_join_value, C05.oracle_exit_value, C05.oracle_exit_never_empty) are "
                     "evaluated on every real output, but not proved",
                     "prices unchanged between join and exit (round trip is join immediately followed by exit)"],
        explanation="Theorems C05.* about the Lean port of MaximalExactRatioJoin/CalcJoinPoolNoSwapShares/JoinPool/CalcExitPool/ExitPool; port = code checked by exact "
                    "equality of every output (shares, coins joined, payouts, new balances, new total shares, result kind); predicates join_fair, exit_fair, "
                    "never_empty, round_trip evaluated on every real output.",
    )
