from propcommon import *  # noqa

CFG = dict(
    level="proof",
    lean_modules=["ElysModel.Props.C09", "ElysModel.Props.C09Src"],
    pre_cmds=[GO2LEAN],
    props_files=["ElysModel/Props/C09.lean", "ElysModel/Props/C09Src.lean"],
    runs=[scn_run("c09"), hist_run(focus="perp."), fault_run(focus="perp.", whale=True)],
    rule=HIST_RULE + "; plus directed scenarios (mode scn, prefix c09)",
    trusted_base=COMMON_TB + [SRC_TB, "the block's perpetual macro-op is reconstructed from the positions' own field changes (W); the pool aggregates are predicted and compared"],
    assumptions=[SRC_ASSUME, "the arithmetic that reduces a position's fields to zero before DestroyMTP is not modelled (residual-zero side condition; witness theorem shows what happens otherwise)"],
    explanation="Theorems over paired position/pool updates, open, destroy (partial), atomic macro-ops and histories; custody backing (partial). "
                "Predicates evaluated on every observed block; the world has two perpetual pools sharing the trading asset."
                " Id allocation: no stored position's id exceeds the counter and no id is stored twice over all histories of opens, closes and genesis export/import restarts (ids_never_reused; witness of the import-by-length rule); evaluated on every observed block.",
)
