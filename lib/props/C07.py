from propcommon import *  # noqa

CFG = dict(
        level="proof",
        lean_modules=["ElysModel.Props.C07", "ElysModel.Props.C07Src"],
        pre_cmds=[GO2LEAN],
        props_files=["ElysModel/Props/C07.lean", "ElysModel/Props/C07Src.lean"],
        runs=[dict(mode="c07", n_quick=1200, n_thorough=12000, shards_quick=8, shards_thorough=14),
              dict(hist_run(nq=150, nt=400, sq=6, st=10, focus="lp."), driver="C07H", env_quick={"VERIF_HISTS": "1", "VERIF_FOCUS": "lp.", "VERIF_GOVSS": "1"}, env_thorough={"VERIF_HISTS": "3", "VERIF_FOCUS": "lp.", "VERIF_GOVSS": "1"}),
              dict(scn_run("c07"), driver="C07H")],
        rule="op sequences (bond / unbond / explicit bond-then-unbond-the-minted-shares pairs / keeper Borrow / Repay / interest accrual "
             "after generated time gaps / consistent TotalValue+cash gifts) on the real stablestake msg server and keeper, one vault per "
             "sequence (3 lenders, one of them passive, 1 borrower) on a branch of genesis; an evaluation is one op; non-trivial = the op "
             "succeeded; distinct = distinct (op, arguments, result, observed vault state and balances) tuples; plus governance parameter updates drafted some ops earlier; "
             "plus history mode on the real app (driver C07H: leveraged-LP focused histories through FinalizeBlock with the real begin-blocker, interest records and rate model, "
             "governance of the vault's epoch length; an evaluation is one block)",
        trusted_base=COMMON_TB + [SRC_TB, "msg server / keeper driven directly with ctx.WithBlockTime and CacheContext per op (not through FinalizeBlock); "
                                  "no per-block interest records exist in that context, so GetInterest takes its Params.InterestRate branch (modelled); "
                                  "the 'gift' op edits Params.TotalValue and the vault balance together (a harness intervention, not a code path)"],
        assumptions=[SRC_ASSUME, "theorems assume 0 < supply <= TotalValue (rate >= 1) and, for unbond, cash <= TotalValue (C06); amounts positive (ValidateBasic)",
                     "one borrower record; leveragelp's own MaxLeverageRatio test is outside Borrow and not part of C07"],
        explanation="Theorems C07.* over the vault model (rate, bond, unbond, borrow on raw LegacyDec integers): fair issue/redeem, round trip <= a + one share's "
                    "worth, other holders' redeemable value, bounded rate fall (with witnesses), the 90% cap as coded; model = code checked by "
                    "differential op sequences (result kind, shares minted, payout, TotalValue, supply, cash, rate, debt record, interest); the proved "
                    "inequalities evaluated on the implementation's own numbers after every op."
                " Governance parameter updates drafted some operations earlier (op govparams) leave the model state unchanged and must not lower the redemption rate.",
    )
