from propcommon import *  # noqa

CFG = dict(
        level="proof",
        lean_modules=["ElysModel.Props.C12", "ElysModel.Props.C12Src"],
        pre_cmds=[GO2LEAN],
        props_files=["ElysModel/Props/C12.lean", "ElysModel/Props/C12Src.lean"],
        runs=[hist_run(), hist_run(nq=200, sq=4, st=8, focus="cm."), govpool_run(focus="amm."), dict(mode="c12lock", n_quick=3000, n_thorough=100000, shards_quick=4, shards_thorough=8), gentrip_run(focus="cm.")],
        rule=HIST_RULE,
        trusted_base=COMMON_TB + [SRC_TB, "macro-ops of each block are recognised from x/bank's own transfer/coinbase/burn events and the submitted messages; "
                                  "claimed-bucket bookkeeping of Eden/EdenB and EdenB burns are witnessed (W) from the observation"],
        assumptions=[SRC_ASSUME, "lock-ups are modelled and proved on the Commitments value (mode c12lock, differential), not inside the history ledger; VestLiquid is not exercised"],
        explanation="Theorems: the relation the code maintains (total = sum + 2*uncommitted + burnt) by induction over all macro-op histories, total >= sum, "
                    "custody, no-overdraw, the property's first clause over histories without uncommit (partial) and the witness of the defect. "
                    "Known finding C12-uncommit-adds: reported only while the real total equals the as-coded relation exactly.",
    )
