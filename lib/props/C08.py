from propcommon import *  # noqa

CFG = dict(
    level="proof",
    lean_modules=["ElysModel.Props.C08", "ElysModel.Props.C08Src"],
    pre_cmds=[GO2LEAN],
    props_files=["ElysModel/Props/C08.lean", "ElysModel/Props/C08Src.lean"],
    runs=[scn_run("c08"), hist_run(focus="lp."), gentrip_run(focus="lp."),
          # governance re-submits (another leverage cap) or removes a leverage-enabled pool now and then (harness/govshock.go govLpShock)
          dict(hist_run(nq=150, nt=300, sq=4, st=8, focus="lp."), env_quick={"VERIF_HISTS": "1", "VERIF_FOCUS": "lp.", "VERIF_GOVLP": "1"}, env_thorough={"VERIF_HISTS": "3", "VERIF_FOCUS": "lp.", "VERIF_GOVLP": "1"})],
    rule=HIST_RULE + "; plus directed scenarios (mode scn, prefix c08)",
    trusted_base=COMMON_TB + [SRC_TB, "leveragelp macro-ops are recognised from the LP-share mint/commit and uncommit/burn bank events at position addresses; share amounts are W"],
    assumptions=[SRC_ASSUME, "a position opened and fully closed inside one block is not tracked by the replay (its address is in neither observation)"],
    explanation="Theorems: pool leveraged amount = sum of its positions, position amount = shares committed at the position address, counter = stored positions, "
                "preserved by open / consolidate / partial and full close for all share amounts over all histories; a full close leaves nothing behind. "
                "Model tied to the code block by block; predicates evaluated on every observed block (incl. begin-blocker sweeps and ClosePositions)."
                " Id allocation: no stored position's id exceeds the counter and no id is stored twice over all histories of opens, closes and genesis export/import restarts (ids_never_reused; witness of the import-by-length rule); evaluated on every observed block.",
)
