from propcommon import *  # noqa


def fault_run(nq=150, nt=400, sq=8, st=14, gov=False, inflation=False):
    r = hist_run(nq, nt, sq, st)
    for k in ("env_quick", "env_thorough"):
        r[k]["VERIF_FAULTS"] = "1"
        if gov:
            r[k]["VERIF_GOVSHOCK"] = "1"
        if inflation:
            r[k]["VERIF_INFLATION"] = "1"
    return r


CFG = dict(
    level="other",
    lean_modules=["ElysModel.Props.C18", "ElysModel.Props.C18Src"],
    pre_cmds=[GO2LEAN],
    props_files=["ElysModel/Props/C18.lean", "ElysModel/Props/C18Src.lean"],
    runs=[scn_run("c18"), fault_run(), hist_run(sq=4, st=6), fault_run(nq=200, sq=5, st=12, gov=True), fault_run(nq=200, sq=5, st=12, gov=True, inflation=True)],
    rule=HIST_RULE + "; with fault sequences: oracle outages (some or all prices removed for 1-6 blocks), block-time gaps of 25 h to 400 days (many epochs at once, every price "
         "expired), fees paid in uusdc/uatom/uelys, dust amounts from 1 base unit, exits of almost all liquidity; governance shocks (one field of a governance-gated message - "
         "parameter updates of every module, pool parameters, vesting schedules, inflation entries, reward toggles - set to a boundary value of its type and applied like a passed "
         "proposal when ValidateBasic and the module's own handler accept it); one history in three (and every history of the last run) with Eden inflation and Eden rewards on; "
         "plus directed scenarios (prefix c18)",
    trusted_base=COMMON_TB + [SRC_TB, "a block failure is FinalizeBlock returning an error or panicking, observed directly"],
    assumptions=[SRC_ASSUME, "source tie of the collectors: sdk.Coins / sdk.DecCoins are read as ONE denom (the base currency the collectors convert everything to first); a bank transfer is taken to succeed, the theorems say that what is sent was there to send", "partial: the Lean model is the error skeleton of the one end-blocker whose error reaches ABCI (masterchef); panics deep inside unmodelled keepers, out-of-gas, "
                 "DB faults and nil pointers cannot be exhibited by the model and are reached only by the fault-sequence runs (tests)",
                 "parameter settings are explored by single-field boundary shocks of the governance messages the C17 constructor table knows (one field at a time, a fixed set of "
                 "boundary values per type), not exhaustively; the static table of blocker error/panic sites (DESIGN 3.2 Gen/Blockers) is not built"],
    explanation="PARTIAL (level other). Lean: masterchef's end-blocker cannot fail in any environment that validation and the standard wiring guarantee, whether or not fee conversions "
                "fail and whatever the pools' Eden allocations of the block are (for all allocation lists; before 932554d exactly the allocations strictly between 0 and 1 base unit "
                "halted: iff theorem + witness); the epochs begin-blocker survives the estaking hook whatever the provider's vesting claim does (witness of the earlier halt); the "
                "protocol's remainder after the provider's portion is non-negative for every amount under the repaired validation (witness for the earlier one); each hypothesis of "
                "ok_under is needed. Behavioural: every block of every history, with fault sequences and governance shocks, must be processed without error or panic."
                " Begin-block fee allocation (x/estaking/modules/distribution): with truncated power fractions the allocation loop's remainder never goes negative for any validator set, fees and community tax in [0,1] (allocation_within_fees; witness for fractions rounded to nearest); on every block with fees the model's per-validator rewards are compared with x/distribution's own rewards events. EdenB burn: the distribution starting info never records more stake than is stored (edenB_withdraw_ok). Governance shocks include the SDK distribution parameters.",
)
