from propcommon import *  # noqa

CFG = dict(
    level="proof",
    lean_modules=["ElysModel.Props.C01", "ElysModel.Props.C01Src"],
    pre_cmds=[GO2LEAN],
    props_files=["ElysModel/Props/C01.lean", "ElysModel/Props/C01Src.lean"],
    runs=[scn_run("c01"), hist_run(), gentrip_run(focus="amm."), govamm_run(focus="amm."), hist_run(nq=150, nt=300, sq=6, st=8, focus="perp.")],
    rule=HIST_RULE + "; plus the directed scenarios (mode scn) that replay known multi-step histories",
    trusted_base=COMMON_TB + [SRC_TB, "primitive pool ops are recognised from x/bank's own transfer events whose sender or recipient is a pool address; "
                              "a MsgSend by a user to a pool address is a donation"],
    assumptions=[SRC_ASSUME, "pools created during a history are not tracked (the grammar creates none)"],
    explanation="Theorems: bank balance at the pool address = book reserve + donations and denom liquidity = sum of reserves are preserved by every "
                "primitive pool op, hence by every atomic macro-op and every history (induction), for all amounts; witness of the pre-repair exit defect. "
                "Model tied to the code by block-by-block replay; predicates evaluated on every observed block.",
)
