from propcommon import *  # noqa

CFG = dict(
        level="proof",
        lean_modules=["ElysModel.Props.C02"],
        props_files=["ElysModel/Props/C02.lean"],
        runs=[scn_run("c02"), hist_run(focus="amm."), gentrip_run(focus="amm.")],
        rule=HIST_RULE,
        trusted_base=COMMON_TB + ["share mint/burn macro-ops recognised from x/bank events (coinbase -> send -> commit; uncommit -> send -> burn)"],
        assumptions=["call-site fact used by the theorem: shares are committed only by MintPoolShareToAccount and uncommitted only by exit/unbond paths"],
        explanation="Theorems: pool TotalShares = supply = sum of committed = custody balance is preserved by every macro-op (induction over histories); "
                    "supply changes only in the paired mint/burn macro-ops. Same predicate evaluated on every observed block.",
    )
