from propcommon import *  # noqa

CFG = dict(
        level="proof",
        lean_modules=["ElysModel.Props.C14", "ElysModel.Props.C14Src"],
        pre_cmds=[GO2LEAN],
        props_files=["ElysModel/Props/C14.lean", "ElysModel/Props/C14Src.lean"],
        runs=[dict(mode="c14", n_quick=600, n_thorough=20000, shards_quick=8, shards_thorough=14)],
        rule="op sequences (vest/claim/cancel/vest-now/gov schedule change at generated heights) on the real commitment "
             "msg server, one fresh account per sequence; an evaluation is one op; non-trivial = the op succeeded; "
             "distinct = distinct (op, arguments, result, observed entries) tuples",
        trusted_base=COMMON_TB + [SRC_TB, "msg server driven directly with ctx.WithBlockHeight and CacheContext per op (not through FinalizeBlock)"],
        assumptions=[SRC_ASSUME, "one vesting denom (ELYS) per account; amounts positive (ValidateBasic); NumBlocks > 0 except in the witness"],
        explanation="Theorems C14.* over all op sequences of the vesting model; model = code checked by differential op sequences; "
                    "property predicates (claim succeeds, monotone, bounds, conservation, completion, vest-now) evaluated on every real observation.",
    )
