from propcommon import *  # noqa

CFG = dict(
        level="proof",
        lean_modules=["ElysModel.Props.C17"],
        props_files=["ElysModel/Props/C17.lean"],
        # regenerate the handler fact table from the source under check before the Lean build
        pre_cmds=["cd harness && go run ./cmd/extract -out ../lean/ElysModel/Gen/Handlers.lean"],
        # the enumeration is exhaustive over the message types the running app registers: one shard, n unused
        runs=[dict(mode="c17", n_quick=1, n_thorough=1, shards_quick=1, shards_thorough=1)],
        rule="one evaluation = one signed transaction delivered through FinalizeBlock+Commit on the real app (or one "
             "message applied through the app's message router for the governance non-vacuity runs). Enumeration: every "
             "sdk.Msg the app's interface registry lists under /elys.* whose struct has an Authority field (plus parameter's "
             "five Creator-gated ones) x {fresh funded account, pool creator / position owner, active price feeder} x "
             "{signer's own address in the field, governance address in the field but signed by the account}; then 12 "
             "owner-scoped message types (tradeshield update/cancel, leveragelp and perpetual close / stop-loss / take-profit / "
             "claim) from two non-owners, a forged owner field, and the owner. non-trivial = the message passed ValidateBasic "
             "and was delivered; distinct = distinct case lines",
        trusted_base=COMMON_TB + [
            "harness/cmd/extract (go/packages + go/types, syntactic dominance over each handler's own top-level statements; "
            "calls allowed before the guard: sdk.UnwrapSDKContext only); proto signer options read from proto/elys/*/*.proto by regex",
            "state-unchanged is measured against a control world fed the same genesis bytes and the same blocks minus the "
            "transaction under test; all mounted KV stores are hashed key by key except x/auth (sequence numbers) and the "
            "per-block HistoricalInfo records of x/staking and the ccv consumer (they embed the previous app hash)",
            "hand-written constructor table for the governance-gated types (a registered authority-bearing type without a "
            "constructor, or a constructor that fails ValidateBasic, fails the check)",
        ],
        assumptions=["governance authority = x/gov module account in every keeper (checked per type: the same body with the "
                     "field naming governance passes the guard)",
                     "transactions carry zero fee; one message per transaction"],
        explanation="Table half: Gen/Handlers.lean is regenerated from the Go source on every run (89 MsgServer methods at this commit, one per message type the app registers); "
                    "C17.all_guarded / guard_compares_signer / expected_inventory / expected_other_gated are decided over it, and "
                    "guard_blocks / deliver_blocks / table_blocks / owner_blocks hold for every body. Behavioural half: exhaustive "
                    "over the message types registered with the running app (coverage: exhaustive, not sampled): every "
                    "authority-bearing type is refused with unchanged stores from three kinds of non-authorised signer, with the "
                    "signer's or the governance address in the field; the same bodies are accepted from governance; owner-scoped "
                    "messages are refused from non-owners and accepted from the owner. The driver compares each result with the "
                    "model's prediction from the regenerated table.",
    )
