from propcommon import *  # noqa

CFG = dict(
    level="other",
    lean_modules=["ElysModel.Props.C19"],
    props_files=["ElysModel/Props/C19.lean"],
    pre_cmds=["cd harness && go run ./cmd/mapranges -out ../lean/ElysModel/Gen/MapRanges.lean"],
    runs=[dict(mode="c19", n_quick=60, n_thorough=400, shards_quick=6, shards_thorough=14)],
    rule="the same genesis bytes and the same blocks (identical signed tx bytes and block times from the history grammar, 1-4 txs per block, time gaps up to 30 h so epochs roll, "
         "the burner configured so that its map-ordered loop sees several denoms; every 9 blocks an exact-out swap of exactly half a reserve - refused by its own limit half of "
         "the time - and a swap of 1.5 reserves on the unequal-weight pool) fed to four replicas of the real app: two in memory, one on goleveldb closed and reopened after every "
         "committed block, one on goleveldb that is opened, run for one block and exited by a FRESH OS PROCESS per block; an evaluation is one block; non-trivial = distinct block lines",
    trusted_base=COMMON_TB + ["three replicas run in one process (Go randomises the start of every map iteration, so instances already differ) and share its package-level memory; the fourth "
                              "shares nothing but the database; scheduling and wall-clock effects are only sampled"],
    assumptions=["partial: the Lean theorems cover the burner loop's order-independence, the restart simulation of the store discipline and the soundness of the fresh-process "
                 "replica as a detector of blocks that read process memory; goroutine timing, wall-clock reads inside "
                 "dependencies and the Go runtime cannot be modelled and are only exercised by the replica runs (tests)",
                 "the static table of map ranges / keeper-memory writes (DESIGN 3.2 Gen/MapRanges) is not built"],
    explanation="PARTIAL (level other). Lean: the one consensus-path range over a Go map gives the same supply for every permutation of the entries; a restart after a committed block "
                "is indistinguishable for later blocks when blocks read persistent and transient stores only; if no block's result depends on process memory the node that never stops and "
                "the node that runs every block in a fresh process agree after every history, so a disagreement proves a read of process memory (witness: a shared constant overwritten "
                "in place). Behavioural: four replicas must agree on app hash, tx codes and gas at every height; the restarted replica must reload the same height and commit id."
                " Regenerated table Gen/MapRanges (every range over a map in /repo's non-test code) equals the classified expectation (ranges_as_expected); the only map-ordered loop in block processing is the burner's, proved order-independent.",
)
