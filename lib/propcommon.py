# per-property configuration of ./check (what to build, what to run, what the evidence says)
COMMON_TB = [
    "hand-written Lean model tied to /repo only by the executed correspondence (sampled, seeded)",
    "Go harness (/verif/harness): op generators, observation of real state, JSONL protocol; Lean driver parser",
    "cosmos-sdk baseapp/bank/auth, cosmossdk.io/math big integers, IAVL: modelled, not verified",
]

# regenerates lean/ElysModel/Gen/Arith/*.lean from the Go source (harness/cmd/go2lean); the `Props/CxxSrc.lean` theorems are about them
GO2LEAN = "cd harness && go run ./cmd/go2lean -out ../lean/ElysModel/Gen/Arith"
SRC_TB = ("harness/cmd/go2lean (typed-AST translator, ~700 lines of Go: straight-line LegacyDec/Int code, if/else, early returns, error "
          "propagation; loops and keeper calls are not translated — `Pow` is an extern, store reads are free terms listed in Gen/Arith/Table)")
SRC_ASSUME = ("source tie (Props/CxxSrc): the translated functions are modelled with unbounded machine integers and without the 256-bit overflow "
              "panic of math.Int Add/Sub/Mul; a free term (a store read such as params.TotalValue) is a parameter whose source text is compared "
              "with a hand-read expectation")

HIST_RULE = ("histories of signed transactions through FinalizeBlock+Commit on the real app (standard world: 4 amm pools, 2 of them oracle pools "
             "with leveragelp+perpetual+accounted pool, stablestake, masterchef, tradeshield; weighted op grammar over ~30 message kinds plus oracle price "
             "moves and third-party sends); an evaluation is one block; non-trivial/distinct = distinct block lines (txs, results and observed state)")


def hist_run(nq=150, nt=400, sq=8, st=14, focus=None, hq=1, ht=3):
    r = dict(mode="hist", n_quick=nq, n_thorough=nt, shards_quick=sq, shards_thorough=st, env_quick={"VERIF_HISTS": str(hq)}, env_thorough={"VERIF_HISTS": str(ht)})
    if focus:
        r["env_quick"]["VERIF_FOCUS"] = focus
        r["env_thorough"]["VERIF_FOCUS"] = focus
    return r




def scn_run(prefix):
    """directed scenarios whose name starts with `prefix` (harness/scn.go)"""
    return dict(mode="scn", n_quick=1, n_thorough=1, shards_quick=1, shards_thorough=3,
                env_quick={"VERIF_SCN": prefix}, env_thorough={"VERIF_SCN": prefix})


def fault_run(nq=150, nt=400, sq=4, st=10, focus=None, whale=False):
    """history mode with fault injection (oracle outages, long block gaps, price shocks); optionally every history has whales"""
    r = hist_run(nq, nt, sq, st, focus=focus)
    for k in ("env_quick", "env_thorough"):
        r[k]["VERIF_FAULTS"] = "1"
        if whale:
            r[k]["VERIF_WHALE"] = "1"
    return r


def gentrip_run(nq=150, nt=300, sq=4, st=8, focus=None):
    """history mode in which, now and then between two blocks, one module's state goes through its own ExportGenesis -> InitGenesis
    (an export/import restart of that module; harness/gentrip.go)"""
    r = hist_run(nq, nt, sq, st, focus=focus)
    for k in ("env_quick", "env_thorough"):
        r[k]["VERIF_GENTRIP"] = "1"
    return r


def govpool_run(nq=150, nt=300, sq=4, st=8, focus=None):
    """history mode in which governance now and then rewrites one amm pool's parameters (oracle switch, swap fee) between two blocks"""
    r = hist_run(nq, nt, sq, st, focus=focus)
    for k in ("env_quick", "env_thorough"):
        r[k]["VERIF_GOVPOOL"] = "1"
    return r


def govamm_run(nq=150, nt=300, sq=4, st=8, focus=None):
    """history mode in which governance moves one of the amm module's fee parameters (weight-breaking / weight-recovery portions, multiplier)
    early in the history and now and then again"""
    r = hist_run(nq, nt, sq, st, focus=focus)
    for k in ("env_quick", "env_thorough"):
        r[k]["VERIF_GOVAMM"] = "1"
    return r
