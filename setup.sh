#!/bin/sh
# MANIFEST.setup_cmd: build the framework offline from files on disk only.
set -e
cd "$(dirname "$0")"
export GOFLAGS=-mod=mod GOPROXY=off GOSUMDB=off GOTOOLCHAIN=local
mkdir -p build evidence replays
python3 lib/gen_lean_roots.py
(cd lean && lake build ElysModel driver)
(cd harness && sh gen_gomod.sh && go test -c -tags verif -o ../build/harness.test .)
echo setup ok
