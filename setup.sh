#!/bin/sh
# built out below; placeholder keeps MANIFEST.setup_cmd valid
exit 0
