#!/bin/sh
# MANIFEST.setup_cmd: build the framework offline from files on disk only.
set -e
cd "$(dirname "$0")"
export GOFLAGS=-mod=mod GOPROXY=off GOSUMDB=off GOTOOLCHAIN=local
mkdir -p build evidence replays
(cd harness && sh gen_gomod.sh && go test -c -tags verif -o ../build/harness.test .)
# the Lean definitions translated from /repo's Go source (Gen/Arith) are regenerated before anything is built on them
(cd harness && go run ./cmd/go2lean -out ../lean/ElysModel/Gen/Arith)
python3 lib/gen_lean_roots.py
(cd lean && lake build ElysModel driver)
echo setup ok
