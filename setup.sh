#!/bin/sh
# MANIFEST.setup_cmd: build the framework offline from files on disk only.
set -e
cd "$(dirname "$0")"
export GOFLAGS=-mod=mod GOPROXY=off GOSUMDB=off GOTOOLCHAIN=local
mkdir -p build evidence replays
(cd harness && sh gen_gomod.sh && go test -c -tags verif -o ../build/harness.test .)
# every Lean file generated from /repo's Go source (Gen/*) is regenerated before anything is built on it
sh lib/regen.sh
python3 lib/gen_lean_roots.py
(cd lean && lake build ElysModel driver)
echo setup ok
